(* StateHist.v — class definitions and Meta bindings preserve the memo
   invariant; the invariant over all safe histories. *)
From DW Require Import PyStr StrConv StateModel StatePure CharFacts StateBasics StateInv StateGen StateDump.
From Coq Require Import Lia.

(* ---------------------------------------------------------------- Meta objects and who refers to them *)
Record refs_ok (s : sigma) (def : list cid) : Prop := {
  r_def : forall x r, cs_meta (st_cls s x) = Some r -> In x def /\ st_mobjs s r <> None;
  r_mb : forall x y, cs_meta (st_cls s x) = Some (MB y) -> x = y;
  r_mi : forall x y, cs_meta (st_cls s x) = Some (MI y) -> decl_of s y <> None;
  r_init : forall q r, st_minit s q = Some r -> exists y, r = MI y /\ decl_of s y <> None /\ st_mobjs s r <> None;
  r_decl : forall x, decl_of s x <> None -> In x def
}.

Definition Good (s : sigma) (Gh : gov) (def : list cid) : Prop :=
  trees_ok s /\ refs_ok s def /\ exists G, InvG G s /\ gle G Gh.

(* transfer of the class invariant across a definition / binding that concerns another class *)
Lemma valid_transfer' G s s' n x e d :
  valid G s n x e d ->
  (forall m dm, decl_of s m = Some dm -> decl_of s' m = Some dm) ->
  own_meta s' n = own_meta s n ->
  (forall m, cs_parsers (st_cls s m) <> None -> cs_parsers (st_cls s' m) = cs_parsers (st_cls s m)) ->
  valid G s' n x e d.
Proof.
  intros [V1 V2 V3 V4 V5 V6 V7 V8] HD HO HP. split; auto.
  - intros ps Hps. destruct (V1 ps Hps) as [-> K]. split.
    + apply parsers_of_ext. intros dm Hd'. destruct (K dm Hd') as [K1 _].
      unfold gm. destruct (G (d_id dm)); [reflexivity | congruence].
    + intros dm Hd'. destruct (K dm Hd') as [K1 K2]. split; auto. rewrite (HP _ K2). exact K2.
  - intros f Hf. rewrite HO. auto.
  - intros m g Hin. destruct (V8 m g Hin) as (dm & em & ks & A1 & A2 & A3 & A4 & A5).
    exists dm, em, ks. rewrite HO. repeat split; auto.
Qed.

Lemma InvX_transfer' G s s' c x :
  InvX G s c x ->
  (forall m dm, decl_of s m = Some dm -> decl_of s' m = Some dm) ->
  own_meta s' c = own_meta s c ->
  (forall m, cs_parsers (st_cls s m) <> None -> cs_parsers (st_cls s' m) = cs_parsers (st_cls s m)) ->
  InvX G s' c x.
Proof.
  intros [I1 I2 I3 I4 I5 I6] HD HO HP.
  assert (Egm : gm G s' c = gm G s c) by (unfold gm, om; now rewrite HO).
  split; rewrite ?Egm; auto.
  - intros ds H. destruct (I4 ds H) as (d & Hd & ->). exists d. split; auto.
  - intros e He. destruct (I6 e He) as (d & Hd & V). exists d. split; auto. eapply valid_transfer'; eauto.
Qed.

(* ---------------------------------------------------------------- Meta.bind_to on an unused class *)
(* class n has no cache entry and its loader / dumper attributes mirror its own Meta *)
Definition unused (s : sigma) (n : cid) : Prop :=
  let x := st_cls s n in
  caches_empty x /\ cs_ltr x = m_ltr (om s n) /\ cs_dtr x = m_dtr (om s n).

Lemma unused_of_InvX G s n : InvX G s n (st_cls s n) -> G n = None -> unused s n.
Proof.
  intros [I1 I2 I3 I4 I5 I6] Hg. unfold unused. unfold gm in I1, I2. rewrite Hg in I1, I2. auto.
Qed.

(* re-establishing the class invariant of an unused class after its Meta / attributes changed *)
Lemma InvX_rebind G s s' n :
  InvX G s n (st_cls s n) -> G n = None -> unused s' n ->
  (exists (l d0 : option tr) (mr : option mref), st_cls s' n = w_meta mr (w_dtr d0 (w_ltr l (st_cls s n)))) ->
  (forall c, decl_of s' c = decl_of s c) ->
  InvX G s' n (st_cls s' n).
Proof.
  intros [I1 I2 I3 I4 I5 I6] Hg (E & Hl & Hr) (l & d0 & mr & Ex) HD. split.
  - unfold gm. now rewrite Hg.
  - unfold gm. now rewrite Hg.
  - rewrite Ex. cbn. exact I3.
  - rewrite Ex. cbn. intros ds H. rewrite HD. auto.
  - intros _. exact E.
  - intros e He. congruence.
Qed.

(* the state transformer shared by Meta.bind_to(is_default=True) and LoadMeta(..).bind_to:
   attributes, then merge into the existing Meta object or install reference r (whose content is X) *)
Definition bind_core (s : sigma) (n : cid) (X : meta) (r : mref) (fresh_obj : bool) : sigma :=
  let s1 := bind_attrs s n X in
  match cs_meta (st_cls s1 n) with
  | Some r0 => match st_mobjs s1 r0 with
               | Some old => set_mobj s1 r0 (meta_and old X)
               | None => s1
               end
  | None => updc (if fresh_obj then set_mobj s1 r X else s1) n (w_meta (Some r))
  end.

Lemma bind_default_core s n r X : st_mobjs s r = Some X -> bind_default s n r = bind_core s n X r false.
Proof. intro H. unfold bind_default, bind_core. rewrite H. reflexivity. Qed.

Lemma own_meta_set_mobj s r m c :
  own_meta (set_mobj s r m) c =
  match cs_meta (st_cls s c) with
  | Some r' => if mref_eqb r' r then Some m else st_mobjs s r'
  | None => None
  end.
Proof. unfold own_meta. cbn. destruct (cs_meta (st_cls s c)); reflexivity. Qed.

Lemma first_some_and_l old X : first_some (m_ltr X) (m_ltr old) = m_ltr (meta_and old X).
Proof. reflexivity. Qed.
Lemma first_some_and_d old X : first_some (m_dtr X) (m_dtr old) = m_dtr (meta_and old X).
Proof. reflexivity. Qed.

Record bind_post (s s' : sigma) (n : cid) (r : mref) : Prop := {
  b_meta : cs_meta (st_cls s' n) = match cs_meta (st_cls s n) with Some r0 => Some r0 | None => Some r end;
  b_mobjs : forall r', st_mobjs s r' <> None -> st_mobjs s' r' <> None;
  b_newobj : cs_meta (st_cls s n) = None -> st_mobjs s' r <> None;
  b_other : forall c, c <> n -> st_cls s' c = st_cls s c;
  b_decl : forall c, decl_of s' c = decl_of s c;
  b_minit : forall q, st_minit s' q = st_minit s q;
  b_cls : exists (l d0 : option tr) (mr : option mref), st_cls s' n = w_meta mr (w_dtr d0 (w_ltr l (st_cls s n)));
  b_unused : unused s n -> unused s' n
}.

Lemma bind_core_post s n X r fresh :
  (forall r0, cs_meta (st_cls s n) = Some r0 -> st_mobjs s r0 <> None) ->
  (cs_meta (st_cls s n) = None -> fresh = false -> st_mobjs s r = Some X) ->
  bind_post s (bind_core s n X r fresh) n r /\
  (forall c, c <> n ->
     (forall r0, cs_meta (st_cls s n) = Some r0 -> cs_meta (st_cls s c) <> Some r0) ->
     (cs_meta (st_cls s n) = None -> fresh = true -> cs_meta (st_cls s c) <> Some r) ->
     own_meta (bind_core s n X r fresh) c = own_meta s c).
Proof.
  intros Hobj Hnew. unfold bind_core.
  set (s1 := bind_attrs s n X).
  assert (E1 : st_cls s1 n = w_dtr (first_some (m_dtr X) (cs_dtr (st_cls s n)))
                               (w_ltr (first_some (m_ltr X) (cs_ltr (st_cls s n))) (st_cls s n))).
  { unfold s1. rewrite bind_attrs_cls, Nat.eqb_refl. reflexivity. }
  assert (O1 : forall c, c <> n -> st_cls s1 c = st_cls s c).
  { intros c Hc. unfold s1. rewrite bind_attrs_cls. apply Nat.eqb_neq in Hc. now rewrite Hc. }
  assert (Em : cs_meta (st_cls s1 n) = cs_meta (st_cls s n)) by (rewrite E1; reflexivity).
  assert (Eo1 : forall c, own_meta s1 c = own_meta s c).
  { intro c. unfold own_meta. destruct (Nat.eq_dec c n) as [->|Hc]; [rewrite Em | rewrite (O1 c Hc)]; reflexivity. }
  rewrite Em.
  destruct (cs_meta (st_cls s n)) as [r0|] eqn:Er0.
  - (* merge into the existing object *)
    change (st_mobjs s1 r0) with (st_mobjs s r0).
    destruct (st_mobjs s r0) as [old|] eqn:Eold; [|exfalso; eapply Hobj; eauto].
    split.
    + split.
      * change (st_cls (set_mobj s1 r0 (meta_and old X)) n) with (st_cls s1 n). rewrite Em, ?Er0. reflexivity.
      * intros r' Hr'. cbn. destruct (mref_eqb r' r0); [discriminate | exact Hr'].
      * intro H0. congruence.
      * intros c Hc. change (st_cls s1 c = st_cls s c). apply O1; exact Hc.
      * intro c. unfold decl_of. change (cs_decl (st_cls s1 c) = cs_decl (st_cls s c)).
        destruct (Nat.eq_dec c n) as [->|Hc]; [rewrite E1 | rewrite (O1 c Hc)]; reflexivity.
      * reflexivity.
      * change (exists (l d0 : option tr) (mr : option mref), st_cls s1 n = w_meta mr (w_dtr d0 (w_ltr l (st_cls s n)))).
        rewrite E1. exists (first_some (m_ltr X) (cs_ltr (st_cls s n))), (first_some (m_dtr X) (cs_dtr (st_cls s n))), (cs_meta (st_cls s n)).
        destruct (st_cls s n); reflexivity.
      * intros (E & Hl & Hr). unfold unused.
        change (st_cls (set_mobj s1 r0 (meta_and old X)) n) with (st_cls s1 n). rewrite E1.
        assert (Eom : om (set_mobj s1 r0 (meta_and old X)) n = meta_and old X).
        { unfold om. rewrite own_meta_set_mobj, Em, mref_eqb_refl. reflexivity. }
        assert (Eom0 : om s n = old) by (unfold om, own_meta; rewrite Er0, Eold; reflexivity).
        rewrite Eom. cbn. rewrite Hl, Hr, Eom0. repeat split; auto; apply E.
    + intros c Hc Hpriv _. rewrite own_meta_set_mobj. rewrite (O1 c Hc).
      unfold own_meta. destruct (cs_meta (st_cls s c)) as [rc|] eqn:Erc; auto.
      destruct (mref_eqb rc r0) eqn:Eq; auto. apply mref_eqb_eq in Eq. subst rc.
      exfalso. eapply Hpriv; eauto.
  - (* install the reference *)
    set (s2 := if fresh then set_mobj s1 r X else s1).
    assert (E2 : forall c, st_cls s2 c = st_cls s1 c) by (intro c; unfold s2; destruct fresh; reflexivity).
    assert (Eobj : st_mobjs s2 r = Some X).
    { unfold s2. destruct fresh; cbn; [now rewrite mref_eqb_refl | apply Hnew; reflexivity]. }
    assert (Emobj : forall r', st_mobjs (updc s2 n (w_meta (Some r))) r' = st_mobjs s2 r') by reflexivity.
    split.
    + split.
      * rewrite updc_same, ?Er0. reflexivity.
      * intros r' Hr'. rewrite Emobj. unfold s2. destruct fresh; [|exact Hr']. cbn.
        destruct (mref_eqb r' r); [discriminate | exact Hr'].
      * intros _. rewrite Emobj, Eobj. discriminate.
      * intros c Hc. rewrite updc_other by exact Hc. rewrite E2. apply O1; exact Hc.
      * intro c. unfold decl_of. rewrite updc_cls. destruct (Nat.eqb c n) eqn:Ec.
        -- apply Nat.eqb_eq in Ec. subst c. rewrite E2, E1. reflexivity.
        -- apply Nat.eqb_neq in Ec. rewrite E2, (O1 c Ec). reflexivity.
      * intro q. unfold s2. destruct fresh; reflexivity.
      * rewrite updc_same, E2, E1. exists (first_some (m_ltr X) (cs_ltr (st_cls s n))), (first_some (m_dtr X) (cs_dtr (st_cls s n))), (Some r).
        destruct (st_cls s n); reflexivity.
      * intros (E & Hl & Hr). unfold unused. rewrite updc_same, E2, E1.
        assert (Eom : om (updc s2 n (w_meta (Some r))) n = X).
        { unfold om, own_meta. rewrite updc_same. cbn. rewrite Eobj. reflexivity. }
        assert (Eom0 : om s n = meta0) by (unfold om, own_meta; rewrite Er0; reflexivity).
        rewrite Eom. cbn. rewrite Hl, Hr, Eom0. cbn.
        destruct (m_ltr X), (m_dtr X); repeat split; auto; apply E.
    + intros c Hc _ Hpriv. unfold own_meta. rewrite updc_other by exact Hc. rewrite E2, (O1 c Hc).
      destruct (cs_meta (st_cls s c)) as [rc|] eqn:Erc; auto.
      unfold s2. destruct fresh; [|reflexivity]. cbn.
      destruct (mref_eqb rc r) eqn:Eq; auto. apply mref_eqb_eq in Eq. subst rc.
      exfalso. eapply Hpriv; eauto.
Qed.

Lemma trees_ok_decl s s' : (forall c, decl_of s' c = decl_of s c) -> trees_ok s -> trees_ok s'.
Proof.
  intros H T c d Hd. rewrite H in Hd. destruct (T c d Hd) as (A & B & C). split; [|split]; auto.
  intros dm Hm. rewrite H. auto.
Qed.

Lemma gle_none G Gh n : gle G Gh -> Gh n = None -> G n = None.
Proof. intros L H. destruct (G n) eqn:E; auto. rewrite (L _ _ E) in H. discriminate. Qed.

(* binding a Meta to a class that has not been used and whose Meta object is private *)
Lemma bind_core_good s Gh def n X r fresh :
  Good s Gh def -> Gh n = None -> decl_of s n <> None ->
  (forall r0, cs_meta (st_cls s n) = Some r0 -> forall c, c <> n -> cs_meta (st_cls s c) <> Some r0) ->
  (cs_meta (st_cls s n) = None ->
     (fresh = true -> r = MB n) /\
     (fresh = false -> st_mobjs s r = Some X /\ exists y, r = MI y /\ decl_of s y <> None)) ->
  Good (bind_core s n X r fresh) Gh def.
Proof.
  intros (T & R & G & I & L) Hgh Hdn Hpriv Hnew.
  assert (Hg : G n = None) by (eapply gle_none; eauto).
  assert (Hobj : forall r0, cs_meta (st_cls s n) = Some r0 -> st_mobjs s r0 <> None).
  { intros r0 H. apply (r_def _ _ R n r0 H). }
  assert (Hnew' : cs_meta (st_cls s n) = None -> fresh = false -> st_mobjs s r = Some X).
  { intros H1 H2. destruct (Hnew H1) as [_ K]. apply K; exact H2. }
  destruct (bind_core_post s n X r fresh Hobj Hnew') as [B Own].
  set (s' := bind_core s n X r fresh) in *.
  assert (Own' : forall c, c <> n -> own_meta s' c = own_meta s c).
  { intros c Hc. apply Own; [exact Hc | intros r0 H0; apply Hpriv; auto |].
    intros H1 H2. destruct (Hnew H1) as [K _]. rewrite (K H2).
    intro H3. apply (r_mb _ _ R) in H3. contradiction. }
  split; [|split].
  - apply (trees_ok_decl s s'); [apply (b_decl _ _ _ _ B) | exact T].
  - destruct R as [R1 R2 R3 R4 R5]. split.
    + intros x r1 Hx. destruct (Nat.eq_dec x n) as [->|Hc].
      * split; [apply R5; exact Hdn|]. rewrite (b_meta _ _ _ _ B) in Hx.
        destruct (cs_meta (st_cls s n)) as [r0|] eqn:E0; inversion Hx; subst r1.
        -- apply (b_mobjs _ _ _ _ B). apply (R1 n r0 E0).
        -- apply (b_newobj _ _ _ _ B). exact E0.
      * rewrite (b_other _ _ _ _ B x Hc) in Hx. destruct (R1 x r1 Hx). split; auto. apply (b_mobjs _ _ _ _ B); auto.
    + intros x y Hx. destruct (Nat.eq_dec x n) as [->|Hc].
      * rewrite (b_meta _ _ _ _ B) in Hx. destruct (cs_meta (st_cls s n)) as [r0|] eqn:E0.
        -- inversion Hx; subst r0. eapply R2; eauto.
        -- destruct (Hnew eq_refl) as [K1 K2]. inversion Hx; subst r. destruct fresh.
           ++ specialize (K1 eq_refl). inversion K1. reflexivity.
           ++ destruct (K2 eq_refl) as (_ & y0 & Hy & _). discriminate.
      * rewrite (b_other _ _ _ _ B x Hc) in Hx. eauto.
    + intros x y Hx. rewrite (b_decl _ _ _ _ B). destruct (Nat.eq_dec x n) as [->|Hc].
      * rewrite (b_meta _ _ _ _ B) in Hx. destruct (cs_meta (st_cls s n)) as [r0|] eqn:E0.
        -- inversion Hx; subst r0. eapply R3; eauto.
        -- destruct (Hnew eq_refl) as [K1 K2]. inversion Hx; subst r. destruct fresh.
           ++ specialize (K1 eq_refl). discriminate.
           ++ destruct (K2 eq_refl) as (_ & y0 & Hy & Hdy). inversion Hy; subst. exact Hdy.
      * rewrite (b_other _ _ _ _ B x Hc) in Hx. eauto.
    + intros q r1 Hq. rewrite (b_minit _ _ _ _ B) in Hq. destruct (R4 q r1 Hq) as (y & -> & Hy & Ho).
      exists y. rewrite (b_decl _ _ _ _ B). repeat split; auto. apply (b_mobjs _ _ _ _ B); auto.
    + intros x Hx. rewrite (b_decl _ _ _ _ B) in Hx. auto.
  - exists G. split; [|exact L]. intro c. unfold InvC. destruct (Nat.eq_dec c n) as [->|Hc].
    + apply (InvX_rebind G s s' n (I n) Hg).
      * apply (b_unused _ _ _ _ B). eapply unused_of_InvX; eauto. apply I.
      * apply (b_cls _ _ _ _ B).
      * apply (b_decl _ _ _ _ B).
    + rewrite (b_other _ _ _ _ B c Hc).
      apply (InvX_transfer' G s s' c _ (I c)).
      * intros m dm H. now rewrite (b_decl _ _ _ _ B).
      * apply Own'; exact Hc.
      * intros m _. destruct (Nat.eq_dec m n) as [->|Hm].
        -- destruct (b_cls _ _ _ _ B) as (l & d0 & mr & ->). reflexivity.
        -- now rewrite (b_other _ _ _ _ B m Hm).
Qed.

(* ---------------------------------------------------------------- BindMeta *)
Lemma step_bind_core s c m d :
  decl_of s c = Some d ->
  (forall r0, cs_meta (st_cls s c) = Some r0 -> st_mobjs s r0 <> None) ->
  step_bind s c m = (bind_core s c m (MB c) true, ODone).
Proof.
  intros Hd Hobj. unfold step_bind, bind_core. unfold decl_of in Hd. rewrite Hd.
  set (s1 := bind_attrs s c m).
  assert (Em : cs_meta (st_cls s1 c) = cs_meta (st_cls s c)).
  { unfold s1. rewrite bind_attrs_cls, Nat.eqb_refl. reflexivity. }
  rewrite Em. destruct (cs_meta (st_cls s c)) as [r0|] eqn:E0; [|reflexivity].
  change (st_mobjs s1 r0) with (st_mobjs s r0).
  destruct (st_mobjs s r0) eqn:E1; [reflexivity|]. exfalso. eapply Hobj; eauto.
Qed.

Lemma step_bind_good s Gh def c m :
  Good s Gh def -> safe_op s Gh def (OBind c m) = true -> Good (fst (step_bind s c m)) Gh def.
Proof.
  intros Hgood Hs. cbn [safe_op] in Hs. unfold bind_ok in Hs. apply andb_true_iff in Hs. destruct Hs as [Hs1 Hs2].
  destruct (decl_of s c) as [d|] eqn:Hd.
  2:{ unfold step_bind. unfold decl_of in Hd. rewrite Hd. exact Hgood. }
  pose proof Hgood as (T & R & _).
  rewrite (step_bind_core s c m d Hd) by (intros r0 H; apply (r_def _ _ R c r0 H)).
  cbn [fst]. apply bind_core_good; auto.
  - destruct (Gh c); [discriminate | reflexivity].
  - congruence.
  - intros r0 H0 x Hx Hc. rewrite H0 in Hs2. rewrite forallb_forall in Hs2.
    assert (Hin : In x def) by apply (r_def _ _ R x r0 Hc).
    specialize (Hs2 x Hin). apply orb_true_iff in Hs2. destruct Hs2 as [H|H].
    + apply Nat.eqb_eq in H. contradiction.
    + rewrite Hc in H. cbn in H. rewrite mref_eqb_refl in H. discriminate.
  - intros _. split; [reflexivity | discriminate].
Qed.

(* ---------------------------------------------------------------- DefineClass *)
Lemma resolve_fields_children s fs fields :
  resolve_fields s fs = Some fields ->
  forall dm, In dm (field_children fields) -> exists c, decl_of s c = Some dm.
Proof.
  revert fields. induction fs as [|[[x ty] dv] r IH]; intros fields; cbn.
  - intro H; inversion H; subst. intros dm [].
  - destruct (resolve_fields s r) as [r'|]; [|discriminate].
    destruct ty as [| |c].
    + intro H; inversion H; subst. cbn. apply IH; reflexivity.
    + intro H; inversion H; subst. cbn. apply IH; reflexivity.
    + destruct (cs_decl (st_cls s c)) as [d|] eqn:Ed; [|discriminate].
      intro H; inversion H; subst. cbn. intros dm [<-|Hin].
      * exists c. exact Ed.
      * apply (IH r' eq_refl); exact Hin.
Qed.

(* the state right after the class statement, before __init_subclass__ runs the initialisers *)
Definition def_base (s : sigma) (info : cinfo) (fields : list (pstr * fty cdecl * option dval)) : sigma :=
  let n := ci_id info in
  let s1 := updc s n (fun _ => w_decl (Some (CDecl info fields)) cs0) in
  if ci_wiz info then
    match ci_inner info with
    | Some m => set_minit (set_mobj s1 (MI n) m) (ci_qn info) (MI n)
    | None => s1
    end
  else s1.

Lemma def_base_good s Gh def info fields :
  Good s Gh def -> Gh (ci_id info) = None -> decl_of s (ci_id info) = None ->
  (forall dm, In dm (field_children fields) -> exists c, decl_of s c = Some dm) ->
  Good (def_base s info fields) Gh (ci_id info :: def) /\
  cs_meta (st_cls (def_base s info fields) (ci_id info)) = None /\
  decl_of (def_base s info fields) (ci_id info) <> None /\
  (forall c, cs_meta (st_cls (def_base s info fields) c) <> Some (MI (ci_id info))) /\
  (forall c, c <> ci_id info -> st_cls (def_base s info fields) c = st_cls s c) /\
  (forall q, st_minit (def_base s info fields) q =
     if ci_wiz info && (match ci_inner info with Some _ => true | None => false end) && Nat.eqb q (ci_qn info)
     then Some (MI (ci_id info)) else st_minit s q).
Proof.
  intros (T & R & G & I & L) Hgh Hdn Hch.
  set (n := ci_id info) in *. set (s2 := def_base s info fields) in *.
  assert (Hg : G n = None) by (eapply gle_none; eauto).
  set (D := CDecl info fields).
  set (s1 := updc s n (fun _ => w_decl (Some D) cs0)).
  assert (E1n : st_cls s1 n = w_decl (Some D) cs0) by (unfold s1; now rewrite updc_same).
  assert (O1 : forall c, c <> n -> st_cls s1 c = st_cls s c) by (intros c Hc; unfold s1; now rewrite updc_other).
  assert (Ecls : forall c, st_cls s2 c = st_cls s1 c).
  { intro c. unfold s2, def_base. fold n. fold D. fold s1. destruct (ci_wiz info); [destruct (ci_inner info)|]; reflexivity. }
  assert (Dmono : forall m dm, decl_of s m = Some dm -> decl_of s2 m = Some dm).
  { intros m dm H. unfold decl_of. rewrite Ecls. destruct (Nat.eq_dec m n) as [->|Hm]; [congruence|]. now rewrite (O1 m Hm). }
  assert (Dn : decl_of s2 n = Some D) by (unfold decl_of; rewrite Ecls, E1n; reflexivity).
  assert (NoMI : forall c, cs_meta (st_cls s c) <> Some (MI n)).
  { intros c H. apply (r_mi _ _ R) in H. congruence. }
  assert (Meta2 : forall c, cs_meta (st_cls s2 c) = if Nat.eqb c n then None else cs_meta (st_cls s c)).
  { intro c. rewrite Ecls. destruct (Nat.eqb c n) eqn:Ec.
    - apply Nat.eqb_eq in Ec. subst. rewrite E1n. reflexivity.
    - apply Nat.eqb_neq in Ec. now rewrite (O1 c Ec). }
  assert (Mobj : forall r, st_mobjs s r <> None -> st_mobjs s2 r <> None).
  { intros r Hr. unfold s2, def_base. fold n. fold D. fold s1.
    destruct (ci_wiz info); [destruct (ci_inner info)|]; cbn; auto. destruct (mref_eqb r (MI n)); [discriminate | auto]. }
  assert (Mobj' : forall r, r <> MI n -> st_mobjs s2 r = st_mobjs s r).
  { intros r Hr. unfold s2, def_base. fold n. fold D. fold s1.
    destruct (ci_wiz info); [destruct (ci_inner info)|]; cbn; auto. apply mref_eqb_neq in Hr. now rewrite Hr. }
  assert (Own2 : forall c, c <> n -> own_meta s2 c = own_meta s c).
  { intros c Hc. unfold own_meta. rewrite Meta2. apply Nat.eqb_neq in Hc. rewrite Hc.
    destruct (cs_meta (st_cls s c)) as [r|] eqn:E; auto. apply Mobj'. intro; subst. eapply NoMI; eauto. }
  assert (Minit : forall q, st_minit s2 q =
     if ci_wiz info && (match ci_inner info with Some _ => true | None => false end) && Nat.eqb q (ci_qn info)
     then Some (MI n) else st_minit s q).
  { intro q. unfold s2, def_base. fold n. fold D. fold s1.
    destruct (ci_wiz info); [destruct (ci_inner info)|]; cbn; auto. }
  split; [|split; [|split; [|split; [|split]]]].
  - split; [|split].
    + (* trees *)
      intros c d Hd. destruct (Nat.eq_dec c n) as [->|Hc].
      * assert (d = D) by congruence. subst d. split; [reflexivity|]. split.
        -- intros dm Hm. destruct (Hch dm Hm) as (c0 & Hc0).
           assert (d_id dm = c0) by apply (T _ _ Hc0). subst c0. apply Dmono; exact Hc0.
        -- intro Hin. unfold proper_ids in Hin. apply in_map_iff in Hin. destruct Hin as (dk & Ek & Hk).
           apply proper_inv in Hk. destruct Hk as (dm & Hm & Hk). destruct (Hch dm Hm) as (c0 & Hc0).
           assert (d_id dm = c0) by apply (T _ _ Hc0). subst c0.
           assert (decl_of s (d_id dk) = Some dk).
           { destruct Hk as [->|Hk]; auto. eapply trees_ok_proper; eauto. }
           change (d_id D) with n in Ek. congruence.
      * unfold decl_of in Hd. rewrite Ecls, (O1 c Hc) in Hd. destruct (T c d Hd) as (A & B & C).
        split; [|split]; auto.
    + (* refs *)
      destruct R as [R1 R2 R3 R4 R5]. split.
      * intros x r Hx. rewrite Meta2 in Hx. destruct (Nat.eqb x n); [discriminate|].
        destruct (R1 x r Hx). split; [right|]; auto.
      * intros x y Hx. rewrite Meta2 in Hx. destruct (Nat.eqb x n); [discriminate|]. eauto.
      * intros x y Hx. rewrite Meta2 in Hx. destruct (Nat.eqb x n); [discriminate|].
        pose proof (R3 x y Hx) as H. destruct (decl_of s y) eqn:E; [|congruence]. rewrite (Dmono _ _ E). discriminate.
      * intros q r Hq. rewrite Minit in Hq.
        destruct (ci_wiz info && _ && Nat.eqb q (ci_qn info)) eqn:Eb.
        -- inversion Hq; subst r. exists n. split; [reflexivity|]. split; [congruence|].
           unfold s2, def_base. fold n. fold D. fold s1.
           destruct (ci_wiz info); [|discriminate]. destruct (ci_inner info); [|discriminate].
           cbn. rewrite Nat.eqb_refl. discriminate.
        -- destruct (R4 q r Hq) as (y & -> & Hy & Ho). exists y. split; [reflexivity|]. split; [|auto].
           destruct (decl_of s y) eqn:E; [|congruence]. rewrite (Dmono _ _ E). discriminate.
      * intros x Hx. destruct (Nat.eq_dec x n) as [->|Hc]; [left; reflexivity|]. right. apply R5.
        unfold decl_of in *. rewrite Ecls, (O1 x Hc) in Hx. exact Hx.
    + exists G. split; [|exact L]. intro c. unfold InvC. rewrite Ecls. destruct (Nat.eq_dec c n) as [->|Hc].
      * rewrite E1n.
        assert (Eom : om s2 n = meta0) by (unfold om, own_meta; rewrite Meta2, Nat.eqb_refl; reflexivity).
        split; cbn; unfold gm; rewrite ?Hg, ?Eom; cbn; auto; try discriminate; try tauto.
        -- repeat split; reflexivity.
      * rewrite (O1 c Hc). apply (InvX_transfer' G s s2 c _ (I c)); auto.
        intros m Hm. rewrite Ecls. destruct (Nat.eq_dec m n) as [->|Hmn].
        -- exfalso. destruct (i_none _ _ _ _ (I n) Hg) as (H & _). contradiction.
        -- now rewrite (O1 m Hmn).
  - rewrite Meta2, Nat.eqb_refl. reflexivity.
  - congruence.
  - intros c H. rewrite Meta2 in H. destruct (Nat.eqb c n); [discriminate|]. eapply NoMI; eauto.
  - intros c Hc. rewrite Ecls. apply O1; exact Hc.
  - exact Minit.
Qed.

Lemma Good_weaken s Gh def n : Good s Gh def -> Good s Gh (n :: def).
Proof.
  intros (T & [R1 R2 R3 R4 R5] & GI). split; [exact T|]. split; [|exact GI]. split; auto.
  - intros x r H. destruct (R1 x r H). split; [right|]; auto.
  - intros x H. right. auto.
Qed.

(* Meta.bind_to run by the initialiser found under a qualname *)
Lemma bind_default_good s Gh def n r :
  Good s Gh def -> Gh n = None -> decl_of s n <> None ->
  (forall r0, cs_meta (st_cls s n) = Some r0 -> forall c, c <> n -> cs_meta (st_cls s c) <> Some r0) ->
  (exists q, st_minit s q = Some r) ->
  Good (bind_default s n r) Gh def /\
  cs_meta (st_cls (bind_default s n r) n) = match cs_meta (st_cls s n) with Some r0 => Some r0 | None => Some r end /\
  (forall c, c <> n -> st_cls (bind_default s n r) c = st_cls s c) /\
  (forall q, st_minit (bind_default s n r) q = st_minit s q) /\
  (forall c, decl_of (bind_default s n r) c = decl_of s c).
Proof.
  intros Hgood Hgh Hdn Hpriv (q & Hq).
  pose proof Hgood as (T & R & _).
  destruct (r_init _ _ R q r Hq) as (y & Ey & Hy & Ho).
  destruct (st_mobjs s r) as [X|] eqn:EX; [|congruence].
  rewrite (bind_default_core s n r X EX).
  assert (Hobj : forall r0, cs_meta (st_cls s n) = Some r0 -> st_mobjs s r0 <> None).
  { intros r0 H. apply (r_def _ _ R n r0 H). }
  destruct (bind_core_post s n X r false Hobj (fun _ _ => EX)) as [B _].
  split; [|split; [|split; [|split]]].
  - apply bind_core_good; auto. intros _. split; [discriminate|]. intros _. split; [exact EX|]. exists y. auto.
  - apply (b_meta _ _ _ _ B).
  - apply (b_other _ _ _ _ B).
  - apply (b_minit _ _ _ _ B).
  - apply (b_decl _ _ _ _ B).
Qed.

Lemma step_define_good s Gh def cd :
  Good s Gh def -> safe_op s Gh def (ODefine cd) = true ->
  Good (fst (step_define s cd)) Gh (dstep def (ODefine cd)).
Proof.
  intros Hgood Hs. cbn [safe_op dstep] in *. unfold define_ok in Hs.
  apply andb_true_iff in Hs. destruct Hs as [Hs1 Hs2].
  set (info := cd_info cd) in *. set (n := ci_id info) in *.
  assert (Hgh : Gh n = None) by (destruct (Gh n); [discriminate | reflexivity]).
  unfold step_define. fold info. fold n.
  destruct (cs_decl (st_cls s n)) as [d0|] eqn:Hdn; [apply Good_weaken; exact Hgood|].
  destruct (resolve_fields s (cd_fields cd)) as [fields|] eqn:Erf; [|apply Good_weaken; exact Hgood].
  destruct (negb (ci_wiz info) && match ci_inner info with Some _ => true | None => false end) eqn:Eb;
    [apply Good_weaken; exact Hgood|].
  destruct (def_base_good s Gh def info fields Hgood Hgh Hdn (resolve_fields_children s _ _ Erf))
    as (G2 & M2 & D2 & NoMI & O2 & Mi2).
  fold n in G2, M2, D2, NoMI, O2, Mi2.
  destruct (ci_wiz info) eqn:Ew.
  2:{ cbn [fst]. unfold def_base in G2. fold n in G2. rewrite Ew in G2. exact G2. }
  (* JSONWizard subclass: the two initialiser calls *)
  set (s2 := def_base s info fields) in *.
  assert (Es2 : match ci_inner info with
                | Some m => set_minit (set_mobj (updc s n (fun _ => w_decl (Some (CDecl info fields)) cs0)) (MI n) m) (ci_qn info) (MI n)
                | None => updc s n (fun _ => w_decl (Some (CDecl info fields)) cs0)
                end = s2).
  { unfold s2, def_base. fold n. rewrite Ew. reflexivity. }
  rewrite Es2.
  set (s3 := match st_minit s2 (ci_qn info) with Some r => bind_default s2 n r | None => s2 end).
  assert (S3 : Good s3 Gh (n :: def) /\ decl_of s3 n <> None /\
               (forall r0, cs_meta (st_cls s3 n) = Some r0 -> forall c, c <> n -> cs_meta (st_cls s3 c) <> Some r0)).
  { unfold s3. destruct (st_minit s2 (ci_qn info)) as [r|] eqn:Eq.
    - assert (r = MI n).
      { rewrite Mi2, Nat.eqb_refl in Eq. cbn [andb] in Eq. destruct (ci_inner info); cbn in Eq; [congruence|].
        rewrite Eq in Hs2. discriminate. }
      subst r.
      destruct (bind_default_good s2 Gh (n :: def) n (MI n) G2 Hgh D2) as (G3 & M3 & O3 & _ & D3).
      + intros r0 H0. congruence.
      + exists (ci_qn info). exact Eq.
      + split; [exact G3|]. split; [rewrite D3; exact D2|].
        intros r0 H0 c Hc. rewrite M3, M2 in H0. inversion H0; subst r0. rewrite (O3 c Hc). apply NoMI.
    - split; [exact G2|]. split; [exact D2|]. intros r0 H0. congruence. }
  destruct S3 as (G3 & D3 & P3). cbn [fst].
  destruct (ci_base_qn info) as [bq|]; [|exact G3].
  destruct (st_minit s3 bq) as [rb|] eqn:Eqb; [|exact G3].
  apply (bind_default_good s3 Gh (n :: def) n rb G3 Hgh D3 P3). exists bq. exact Eqb.
Qed.

(* ---------------------------------------------------------------- one operation *)
Lemma refs_ok_dp s s' def : same_dp s s' -> refs_ok s def -> refs_ok s' def.
Proof.
  intros (H1 & H2 & H3) [R1 R2 R3 R4 R5].
  assert (Hm : forall x, cs_meta (st_cls s' x) = cs_meta (st_cls s x)) by (intro; apply H1).
  assert (Hd : forall x, decl_of s' x = decl_of s x) by (intro; apply H1).
  split.
  - intros x r H. rewrite Hm in H. rewrite H2. auto.
  - intros x y H. rewrite Hm in H. eauto.
  - intros x y H. rewrite Hm in H. rewrite Hd. eauto.
  - intros q r H. rewrite H3 in H. destruct (R4 q r H) as (y & -> & A & B). exists y. rewrite Hd, H2. auto.
  - intros x H. rewrite Hd in H. auto.
Qed.

Lemma step_good s Gh def o :
  Good s Gh def -> safe_op s Gh def o = true ->
  Good (fst (step s o)) (gstep s Gh o) (dstep def o) /\
  (is_def o = false -> snd (step s o) = pure_op s o /\ same_dp s (fst (step s o))).
Proof.
  intros Hgood Hs. destruct o as [cd | c m | c attr doc | attr v]; cbn [step is_def].
  - split; [|discriminate]. cbn [gstep]. now apply step_define_good.
  - split; [|discriminate]. cbn [gstep dstep]. now apply step_bind_good.
  - destruct Hgood as (T & R & G & I & L).
    destruct (step_load s c attr doc) as [s' out] eqn:E.
    destruct (step_load_spec G Gh def s c attr doc s' out I T L Hs E) as (Ho & G' & I' & L' & P').
    cbn [fst snd dstep]. split.
    + split; [eapply trees_ok_pres; eauto|]. split; [eapply refs_ok_dp; eauto; apply P'|]. exists G'. auto.
    + intros _. split; [exact Ho | apply P'].
  - destruct Hgood as (T & R & G & I & L).
    destruct (step_dump s attr v) as [s' out] eqn:E.
    destruct (step_dump_spec G Gh def s attr v s' out I T L Hs E) as (Ho & G' & I' & L' & P').
    cbn [fst snd dstep]. split.
    + split; [eapply trees_ok_pres; eauto|]. split; [eapply refs_ok_dp; eauto; apply P'|]. exists G'. auto.
    + intros _. split; [exact Ho | apply P'].
Qed.

Lemma Good_init : Good init g0 [].
Proof.
  split; [|split].
  - intros c d H. discriminate.
  - split; cbn; intros; try discriminate; try tauto.
  - exists g0. split; [|intros x e H; exact H]. intro n. split; cbn; try reflexivity; try discriminate; try tauto.
    intros _. repeat split; reflexivity.
Qed.

(* ---------------------------------------------------------------- histories *)
Fixpoint ghist (s : sigma) (G : gov) (def : list cid) (h : list op) : sigma * gov * list cid :=
  match h with
  | [] => (s, G, def)
  | o :: r => ghist (fst (step s o)) (gstep s G o) (dstep def o) r
  end.

Lemma ghist_run h : forall s G def, fst (fst (ghist s G def h)) = run s h.
Proof. induction h as [|o r IH]; intros s G def; cbn [ghist]; [reflexivity|]. rewrite IH. reflexivity. Qed.

Lemma safe_from_app h h2 : forall s G def,
  safe_from s G def (h ++ h2) =
  safe_from s G def h && safe_from (fst (fst (ghist s G def h))) (snd (fst (ghist s G def h))) (snd (ghist s G def h)) h2.
Proof.
  induction h as [|o r IH]; intros; cbn [app safe_from ghist fst snd]; auto.
  rewrite IH. now rewrite andb_assoc.
Qed.

(* the memo invariant holds after every safe history *)
Lemma Good_ghist h : forall s G def, Good s G def -> safe_from s G def h = true ->
  Good (fst (fst (ghist s G def h))) (snd (fst (ghist s G def h))) (snd (ghist s G def h)).
Proof.
  induction h as [|o r IH]; intros s G def Hg Hs; cbn [ghist fst snd]; auto.
  cbn [safe_from] in Hs. apply andb_true_iff in Hs. destruct Hs as [H1 H2].
  apply IH; auto. apply (step_good s G def o Hg H1).
Qed.

Definition Inv (s : sigma) : Prop := exists G, InvG G s.

Theorem Inv_init : Inv init.
Proof. destruct Good_init as (_ & _ & G & I & _). exists G. exact I. Qed.

Theorem Inv_run h : safe_history h = true -> Inv (run init h).
Proof.
  intro Hs. pose proof (Good_ghist h init g0 [] Good_init Hs) as (_ & _ & G & I & _).
  rewrite ghist_run in I. exists G. exact I.
Qed.
