(* HistWitness.v — instances of the memo lemma, refutations, examples, and the product of the two machines. *)
From DW Require Import PyStr StrConv CharFacts StateModel StatePure StateTransparent HistMemo HistMemoProofs HistValueModel HistValueProofs
     HistPatProofs HistProduct.
From Coq Require Import List ZArith Bool Lia.
Import ListNotations.

(* ---------------------------------------------------------------- instances of the factoring condition *)
Section Instances.
  Variable iso : dkind -> pstr -> option xv.
  Variable fromts : dkind -> pstr -> cres.

  (* the library: no value-level memo *)
  Lemma factors_none : factors (am iso fromts) mk_none am_cacheable.
  Proof. intros k k' E. discriminate E. Qed.

  (* a memo keyed by (type, value) EXACTLY (type, ==-class and text all equal) *)
  Lemma factors_exact : factors (am iso fromts) mk_exact am_cacheable.
  Proof.
    intros [k v] [k' v'] E _. unfold mk_exact in E. cbn [fst snd] in E. apply andb_true_iff in E as [E1 E2].
    apply dkind_eqb_eq in E1. apply xv_same_eq in E2. congruence.
  Qed.
End Instances.

(* ---------------------------------------------------------------- concrete values *)
Definition v_int1 : xv := {| x_ty := XInt; x_eq := QNum 1 1; x_txt := S "I1" |}.
Definition v_true : xv := {| x_ty := XBool; x_eq := QNum 1 1; x_txt := S "B1" |}.
Definition v_float1 : xv := {| x_ty := XFloat; x_eq := QNum 1 1; x_txt := S "F0x1.0000000000000p+0" |}.
Definition v_dec1 : xv := {| x_ty := XDecimal; x_eq := QNum 1 1; x_txt := S "M1" |}.
Definition v_epoch1 : xv := {| x_ty := XDatetime; x_eq := QMoment XDatetime true 1000000; x_txt := S "T1970-01-01T00:00:01+00:00" |}.
Definition v_str (s : pstr) : xv := {| x_ty := XStr; x_eq := QStr s; x_txt := S "S" ++ hex s |}.

Example py_eq_collisions :
  py_eq v_true v_int1 = true /\ py_eq v_float1 v_int1 = true /\ py_eq v_dec1 v_int1 = true /\
  xv_same v_true v_int1 = false /\ py_eq (v_str (S "1")) v_int1 = false.
Proof. vm_compute. repeat split. Qed.

(* a memo keyed as a Python dict keys (value, type) does NOT factor as_datetime, whatever the stdlib parsers
   are, as soon as the timestamp 1 converts: True collides with 1 and is rejected by the exact-type dispatch *)
Lemma am_py_collision iso fromts r :
  fromts KDt (x_txt v_int1) = COk r ->
  mk_py (KDt, v_true) (KDt, v_int1) = true /\ am_cacheable (am iso fromts (KDt, v_int1)) = true /\
  am iso fromts (KDt, v_true) <> am iso fromts (KDt, v_int1).
Proof.
  intro H. split; [reflexivity |]. unfold am. cbn [fst snd].
  change (x_ty v_int1) with XInt. change (x_ty v_true) with XBool. cbv iota. rewrite H.
  split; [reflexivity | discriminate].
Qed.

Theorem memo_py_not_factors iso fromts r :
  fromts KDt (x_txt v_int1) = COk r -> ~ factors (am iso fromts) mk_py am_cacheable.
Proof.
  intros H F. destruct (am_py_collision iso fromts r H) as [E [C D]]. apply D. apply F; assumption.
Qed.

Theorem memo_py_refuted iso fromts r :
  fromts KDt (x_txt v_int1) = COk r -> ~ mtransparent (am iso fromts) mk_py am_cacheable.
Proof. intros H T. apply (memo_py_not_factors iso fromts r H). apply memo_sound_iff. exact T. Qed.

(* ---------------------------------------------------------------- machine-level witnesses (concrete oracles) *)
Definition w_conv0 (v1 : bool) (t : pstr) (v : xv) : cres := COk v.
Definition w_dumpv (v1 : bool) (v : xv) : cres := COk v.
Definition w_iso (k : dkind) (s : pstr) : option xv := None.
Definition w_fromts (k : dkind) (s : pstr) : cres := if pstr_eqb s (S "I1") then COk v_epoch1 else CErr (CERaw (S "OverflowError")).
Definition w_strp (fmt : nat) (k : dkind) (s : pstr) : option xv := None.
Definition w_step := hstep false w_conv0 w_dumpv w_iso w_fromts w_strp.      (* the library *)
Definition w_run := hrun false w_conv0 w_dumpv w_iso w_fromts w_strp.
Definition w_step_prefix := hstep true w_conv0 w_dumpv w_iso w_fromts w_strp.   (* the variant before fix commit 38c6a1a *)
Definition w_run_prefix := hrun true w_conv0 w_dumpv w_iso w_fromts w_strp.

Definition fld (n : pstr) (t : xfty) : xfield := {| xf_name := n; xf_ty := t; xf_default := None; xf_aliases := [] |}.
Definition cls_d (c : nat) (fs : list xfield) : xcdef :=
  {| xc_id := c; xc_v1 := false; xc_ltr := None; xc_case := KCNone; xc_raise := false; xc_fields := fs |}.
Definition cls_v1 (c : nat) (kc : kcase) (fs : list xfield) : xcdef :=
  {| xc_id := c; xc_v1 := true; xc_ltr := None; xc_case := kc; xc_raise := false; xc_fields := fs |}.

(* C06-9: class Heartbeat(seen: datetime) loads the timestamp 1; class Event(at: datetime) then accepts True *)
Definition h_memo9 : list hop :=
  [HDefine (cls_d 1%nat [fld (S "at") (FMoment KDt)]); HDefine (cls_d 2%nat [fld (S "seen") (FMoment KDt)]);
   HLoad 2%nat [(S "seen", v_int1)]].
Definition o_memo9 : hop := HLoad 1%nat [(S "at", v_true)].

Lemma refuted_memo9 :
  snd (w_step mk_py (w_run mk_py hinit h_memo9) o_memo9) = HVal 1%nat [(S "at", v_epoch1)] /\
  snd (w_step mk_py (w_run mk_py hinit (hdefs_all h_memo9)) o_memo9) = HErr (HERaw (S "TypeError")) /\
  pat_consistent (h_memo9 ++ [o_memo9]) = true.
Proof. vm_compute. repeat split. Qed.

(* the same history under the library's policy (and under an exact-keyed memo) answers as the pristine state *)
Example memo9_library :
  snd (w_step mk_none (w_run mk_none hinit h_memo9) o_memo9) = HErr (HERaw (S "TypeError")) /\
  snd (w_step mk_exact (w_run mk_exact hinit h_memo9) o_memo9) = HErr (HERaw (S "TypeError")).
Proof. vm_compute. split; reflexivity. Qed.

(* F73 (repaired by 38c6a1a), PRE-FIX variant: ONE Pattern object at a date position (class 1) and a datetime position (class 2); after class 2 has set up
   its parser, a failing load of class 1 raises a ParseError that names datetime (alone: date) *)
Definition h_f71 : list hop :=
  [HDefine (cls_d 1%nat [fld (S "day") (FPat 1 0 KDate)]); HDefine (cls_d 2%nat [fld (S "at") (FPat 1 0 KDt)]);
   HLoad 1%nat [(S "day", v_str (S "zz"))]; HLoad 2%nat [(S "at", v_str (S "zz"))]].
Definition o_f71 : hop := HLoad 1%nat [(S "day", v_str (S "zz"))].

Lemma refuted_f71 :
  snd (w_step_prefix mk_none (w_run_prefix mk_none hinit h_f71) o_f71) = HErr (HEParse 1%nat (S "day") (S "datetime")) /\
  snd (w_step_prefix mk_none (w_run_prefix mk_none hinit (hdefs_all h_f71)) o_f71) = HErr (HEParse 1%nat (S "day") (S "date")) /\
  pat_consistent (h_f71 ++ [o_f71]) = false.
Proof. vm_compute. repeat split. Qed.
(* the library (own copy of the pattern per parser) names the position's own type on the same history *)
Example f71_repaired :
  snd (w_step mk_none (w_run mk_none hinit h_f71) o_f71) = HErr (HEParse 1%nat (S "day") (S "date")) /\
  snd (w_step mk_none (w_run mk_none hinit (hdefs_all h_f71)) o_f71) = HErr (HEParse 1%nat (S "day") (S "date")).
Proof. vm_compute. split; reflexivity. Qed.

(* ---------------------------------------------------------------- why C06-8 and C06-7 break: the memo lemma again *)
(* C06-8: the loader remembers, per FIELD, the spelling that matched last.  The remembered thing is a function of
   (field, document); the table is keyed by the field alone. *)
Fixpoint first_key (ks : list pstr) (doc : list (pstr * xv)) : option pstr :=
  match ks with
  | [] => None
  | k :: r => match assoc_s k doc with Some _ => Some k | None => first_key r doc end
  end.
Definition auto_chain (f : pstr) : list pstr := match possible_json_keys f with Some ks => f :: ks | None => [f] end.
Definition learned_f (q : pstr * list (pstr * xv)) : option pstr := first_key (auto_chain (fst q)) (snd q).
Definition learned_keq (a b : pstr * list (pstr * xv)) : bool := pstr_eqb (fst a) (fst b).
Definition is_some {A} (o : option A) : bool := match o with Some _ => true | None => false end.
Definition doc_camel : list (pstr * xv) := [(S "userName", v_str (S "alice"))].
Definition doc_both : list (pstr * xv) := [(S "user_name", v_str (S "bob")); (S "userName", v_str (S "carol"))].

Theorem learned_key_refuted :
  exists ks q, snd (mcall learned_f learned_keq is_some (mrun learned_f learned_keq is_some [] ks) q) <> learned_f q.
Proof.
  apply (memo_collision_refutes learned_f learned_keq is_some (S "user_name", doc_both) (S "user_name", doc_camel));
    vm_compute; [reflexivity | reflexivity | discriminate].
Qed.
Example learned_key_values :
  learned_f (S "user_name", doc_both) = Some (S "user_name") /\ learned_f (S "user_name", doc_camel) = Some (S "userName").
Proof. vm_compute. split; reflexivity. Qed.

(* C06-7: the generated transform function is memoised on the Pattern OBJECT; it is a function of (object, cls) *)
Definition patfn_f (q : nat * dkind) : dkind := snd q.                      (* the function built returns values of type cls *)
Definition patfn_keq (a b : nat * dkind) : bool := Nat.eqb (fst a) (fst b).
Theorem pattern_object_memo_refuted :
  exists ks q, snd (mcall patfn_f patfn_keq (fun _ => true) (mrun patfn_f patfn_keq (fun _ => true) [] ks) q) <> patfn_f q.
Proof.
  apply (memo_collision_refutes patfn_f patfn_keq (fun _ => true) (1%nat, KDt) (1%nat, KDate));
    vm_compute; [reflexivity | reflexivity | discriminate].
Qed.
(* ... while a memo keyed by (object, cls) factors, whatever is memoised *)
Lemma pattern_pair_memo_factors {V} (g : nat * dkind -> V) :
  factors g (fun a b => Nat.eqb (fst a) (fst b) && dkind_eqb (snd a) (snd b)) (fun _ => true).
Proof.
  intros [o k] [o' k'] E _. cbn [fst snd] in E. apply andb_true_iff in E as [E1 E2].
  apply Nat.eqb_eq in E1. apply dkind_eqb_eq in E2. congruence.
Qed.

(* ---------------------------------------------------------------- non-vacuity: a history over all the new dimensions *)
Definition h_ex : list hop :=
  [HDefine (cls_v1 1%nat KCAuto [fld (S "user_name") (FLeaf (S "str")); fld (S "id") (FLeaf (S "int"))]);
   HDefine (cls_d 2%nat [fld (S "user_name") (FLeaf (S "str")); fld (S "at") (FMoment KDt)]);
   HDefine (cls_d 3%nat [fld (S "day") (FPat 1 0 KDate)]); HDefine (cls_d 4%nat [fld (S "day2") (FPat 1 0 KDate)]);
   HLoad 1%nat [(S "userName", v_str (S "alice")); (S "id", v_int1)];
   HLoad 2%nat [(S "userName", v_str (S "a")); (S "at", v_int1)];
   HLoad 3%nat [(S "day", v_str (S "zz"))]; HLoad 4%nat [(S "day2", v_str (S "zz"))];
   HDump 2%nat [(S "user_name", v_str (S "a")); (S "at", v_epoch1)];
   HLoad 2%nat [(S "user_name", v_str (S "b")); (S "UserName", v_str (S "c")); (S "at", v_true)]].
Definition o_ex : hop := HLoad 1%nat [(S "userName", v_str (S "carol")); (S "user_name", v_str (S "bob")); (S "id", v_true)].

Example hist_example :
  pat_consistent (h_ex ++ [o_ex]) = true /\
  snd (w_step mk_none (w_run mk_none hinit h_ex) o_ex) = HVal 1%nat [(S "user_name", v_str (S "bob")); (S "id", v_true)] /\
  hrun_out false w_conv0 w_dumpv w_iso w_fromts w_strp mk_none hinit [HDefine (cls_d 2%nat [fld (S "user_name") (FLeaf (S "str")); fld (S "at") (FMoment KDt)]);
      HLoad 2%nat [(S "user_name", v_str (S "b")); (S "UserName", v_str (S "c")); (S "at", v_int1)]]
  = [HDone; HVal 2%nat [(S "user_name", v_str (S "c")); (S "at", v_epoch1)]].
Proof. vm_compute. repeat split. Qed.

(* ---------------------------------------------------------------- the product of the two machines *)
Section ProductProofs.
  Variable conv0 : bool -> pstr -> xv -> cres.
  Variable dumpv : bool -> xv -> cres.
  Variable iso : dkind -> pstr -> option xv.
  Variable fromts : dkind -> pstr -> cres.
  Variable strp : nat -> dkind -> pstr -> option xv.
  Variable mk : dkind * xv -> dkind * xv -> bool.
  Hypothesis Hfac : factors (am iso fromts) mk am_cacheable.

  Notation pstep' := (pstep conv0 dumpv iso fromts strp mk).
  Notation prun' := (prun conv0 dumpv iso fromts strp mk).
  Notation hrun' := (hrun false conv0 dumpv iso fromts strp mk).

  Lemma prun_proj h : forall s, prun' s h = (run (fst s) (lefts h), hrun' (snd s) (rights h)).
  Proof.
    induction h as [|o r IH]; intros [s1 s2]; [reflexivity |].
    unfold prun. cbn [fold_left]. fold (prun' (fst (pstep' (s1, s2) o)) r). rewrite IH.
    destruct o as [a | b]; cbn [pstep fst snd lefts rights flat_map app]; reflexivity.
  Qed.

  Lemma lefts_defs h : lefts (pdefs_all h) = defs_all (lefts h).
  Proof.
    induction h as [|o r IH]; [reflexivity |]. destruct o as [a | b]; cbn [pdefs_all filter p_is_def lefts flat_map app].
    - unfold defs_all. cbn [filter]. destruct (is_def a); cbn [lefts flat_map app]; fold (lefts (pdefs_all r)); fold (lefts r);
        [f_equal |]; exact IH.
    - destruct (h_is_def b); cbn [lefts flat_map app]; exact IH.
  Qed.
  Lemma rights_defs h : rights (pdefs_all h) = hdefs_all (rights h).
  Proof.
    induction h as [|o r IH]; [reflexivity |]. destruct o as [a | b]; cbn [pdefs_all filter p_is_def rights flat_map app].
    - destruct (is_def a); cbn [rights flat_map app]; exact IH.
    - unfold hdefs_all. cbn [filter]. destruct (h_is_def b); cbn [rights flat_map app]; fold (rights (pdefs_all r)); fold (rights r);
        [f_equal |]; exact IH.
  Qed.
  Lemma lefts_app h h' : lefts (h ++ h') = lefts h ++ lefts h'.
  Proof. unfold lefts. apply flat_map_app. Qed.
  Lemma rights_app h h' : rights (h ++ h') = rights h ++ rights h'.
  Proof. unfold rights. apply flat_map_app. Qed.

  (* transparency of the product: an interleaved history of both machines *)
  Theorem product_transparent h o :
    safe_history (lefts (h ++ [o])) = true ->
    snd (pstep' (prun' (init, hinit) h) o) = snd (pstep' (prun' (init, hinit) (pdefs_all h)) o).
  Proof.
    intros HS. rewrite !prun_proj. cbn [fst snd]. rewrite lefts_defs, rights_defs.
    rewrite lefts_app in HS.
    destruct o as [a | b]; cbn [pstep fst snd]; f_equal.
    - cbn [lefts flat_map app] in HS. apply transparent. exact HS.
    - apply (hist_transparent_full conv0 dumpv iso fromts strp mk Hfac).
  Qed.
End ProductProofs.
