(* EnvInitProofs.v — lemmas for the C18 extension of model/EnvInit.v: the source-derived order of the
   generated __init__ equals the hand-written prepare / resolve_field; keyword arguments always win;
   arguments override Meta; Env.secret_values; default_factory freshness. *)
From DW Require Import PyStr StrConv EnvModel EnvSpec EnvProofs EnvInit T_EnvInitOrderAlg.
From Coq Require Import Lia.

(* ---- 1. order tables ------------------------------------------------------------------------------- *)
Definition preamble_order : list pstep := [PLoad; PSecrets; PDotenvMeta; PDotenvArg].
Definition field_order : list fstep := [FKwarg; FLookup; FDefault; FFactory; FMissing].

Lemma preamble_decoded : decode_preamble env_init_preamble_v0 = Some preamble_order.
Proof. vm_compute. reflexivity. Qed.

Lemma field_decoded : decode_field env_init_field_v0 env_init_lookup_forms_v0 = Some field_order.
Proof. vm_compute. reflexivity. Qed.

Lemma update_with_decoded :
  env_update_with_v0 =
    [(S "update_with_secret_values", [S "cls.reload(secret_values)"; S "environ.update(secret_values)"]);
     (S "update_with_dotenv", [S "cls.reload(dotenv_values)"; S "environ.update(dotenv_values)"])].
Proof. vm_compute. reflexivity. Qed.

Lemma after_decoded :
  env_init_after_v0 =
    [(S "field_names", S "except", S "handle_err(e, cls, _name, _env_prefix, _env_var)");
     (S "", S "if _vars", S "raise MissingVars(cls, _vars) from None")].
Proof. vm_compute. reflexivity. Qed.

Lemma prepare_steps_eq st c a : prepare_steps preamble_order st c a = prepare st c a.
Proof.
  unfold prepare_steps, preamble_order, prepare, eff_dotenv, overlay_nonempty.
  cbn [fold_left run_pstep]. unfold overlay_nonempty.
  destruct (eff_secrets c a) as [|s0 sr]; destruct (a_envfile a) as [| |fs];
    try destruct (c_envfile c); try destruct fs; reflexivity.
Qed.

Lemma decide_eq st p prefix kw f k n :
  f_default f = has_default k ->
  decide field_order st p prefix kw f k n =
    (fst (resolve_field st p prefix kw f),
     fst (aval_of k n (snd (resolve_field st p prefix kw f))),
     snd (aval_of k n (snd (resolve_field st p prefix kw f)))).
Proof.
  intros H. unfold field_order, resolve_field. cbn [decide].
  destruct (mem_str (f_name f) kw); [reflexivity|].
  destruct (field_lookup st p prefix f) as [st' res].
  destruct res as [var v| |var]; cbn [fst snd src_of aval_of]; try reflexivity.
  rewrite H. destruct k; reflexivity.
Qed.

(* ---- 2. keyword arguments always win ------------------------------------------------------------------ *)
Lemma kwarg_wins_field st p prefix kw f :
  In (f_name f) kw -> resolve_field st p prefix kw f = (st, SKwarg).
Proof.
  intros H. unfold resolve_field. apply mem_str_In in H. rewrite H. reflexivity.
Qed.

Definition kw_src (kw : list pstr) (f : field) (s : src) : Prop :=
  (In (f_name f) kw -> s = SKwarg) /\ (s = SKwarg -> In (f_name f) kw).

Lemma kw_src_field st p prefix kw f : kw_src kw f (snd (resolve_field st p prefix kw f)).
Proof.
  unfold kw_src, resolve_field. destruct (mem_str (f_name f) kw) eqn:M.
  - apply mem_str_In in M. cbn [snd]. split; intros _; [reflexivity | exact M].
  - apply mem_str_not_In in M. destruct (field_lookup st p prefix f) as [st' r]. cbn [snd].
    split; [intros H; contradiction|].
    unfold src_of. destruct r; [discriminate| |discriminate]. destruct (f_default f); discriminate.
Qed.

Lemma kw_src_fields p prefix kw fs : forall st,
  Forall2 (kw_src kw) fs (snd (resolve_fields st p prefix kw fs)).
Proof.
  induction fs as [|f r IH]; intros st; cbn [resolve_fields]; [constructor|].
  pose proof (kw_src_field st p prefix kw f) as Hf.
  destruct (resolve_field st p prefix kw f) as [st1 s]. cbn [snd] in Hf.
  specialize (IH st1). destruct (resolve_fields st1 p prefix kw r) as [st2 ss]. cbn [snd] in *.
  constructor; assumption.
Qed.

Lemma missing_not_kw kw fs ss n :
  Forall2 (kw_src kw) fs ss -> In n (missing_names fs ss) -> ~ In n kw.
Proof.
  intros H. induction H as [|f s fr sr Hf Hr IH]; cbn [missing_names]; [tauto|].
  destruct s; try exact IH.
  cbn [In]. intros [E|Hn]; [|exact (IH Hn)].
  subst n. intros K. destruct Hf as [Hf _]. specialize (Hf K). discriminate Hf.
Qed.

Lemma outcome_of_cases fs ss :
  outcome_of fs ss = OCrash \/
  (outcome_of fs ss = OInstance ss /\ missing_names fs ss = []) \/
  (outcome_of fs ss = OMissing (missing_names fs ss) /\ missing_names fs ss <> []).
Proof.
  unfold outcome_of. destruct (existsb is_crash ss); [left; reflexivity|].
  destruct (missing_names fs ss) eqn:M; right; [left|right]; split; try reflexivity; discriminate.
Qed.

Lemma kwarg_wins_inst st c a :
  match snd (instantiate st c a) with
  | OInstance ss => Forall2 (kw_src (a_kwargs a)) (c_fields c) ss
  | OMissing l => forall n, In n l -> ~ In n (a_kwargs a)
  | OCrash => True
  end.
Proof.
  unfold instantiate.
  pose proof (kw_src_fields (c_prio c) (eff_prefix c a) (a_kwargs a) (c_fields c) (prepare st c a)) as H.
  destruct (resolve_fields (prepare st c a) (c_prio c) (eff_prefix c a) (a_kwargs a) (c_fields c)) as [st1 ss].
  cbn [snd] in *.
  destruct (outcome_of_cases (c_fields c) ss) as [E|[[E _]|[E _]]]; rewrite E; [exact I|exact H|].
  intros n Hn. exact (missing_not_kw _ _ _ _ H Hn).
Qed.

(* ---- 3. arguments override Meta ------------------------------------------------------------------------ *)
Lemma arg_overrides st c c' a :
  c_fields c = c_fields c' -> c_prio c = c_prio c' ->
  (a_prefix a = None -> c_prefix c = c_prefix c') ->
  (a_secrets a = None -> c_secrets c = c_secrets c') ->
  (a_envfile a = EFDefault -> c_envfile c = c_envfile c') ->
  instantiate st c a = instantiate st c' a.
Proof.
  intros Hf Hp Hpre Hsec Hfile.
  assert (E1 : eff_prefix c a = eff_prefix c' a).
  { unfold eff_prefix. destruct (a_prefix a); [reflexivity | apply Hpre; reflexivity]. }
  assert (E2 : eff_secrets c a = eff_secrets c' a).
  { unfold eff_secrets. destruct (a_secrets a); [reflexivity | apply Hsec; reflexivity]. }
  assert (E3 : eff_dotenv c a = eff_dotenv c' a).
  { unfold eff_dotenv. destruct (a_envfile a); try reflexivity. apply Hfile; reflexivity. }
  unfold instantiate, prepare. rewrite E1, E2, E3, Hf, Hp. reflexivity.
Qed.

(* ---- 4. Env.secret_values ------------------------------------------------------------------------------- *)
Lemma secret_values_from_eq dirs : forall acc,
  secret_values_from acc dirs =
    if existsb is_sdfile dirs then None else Some (fold_left env_update (map dir_env dirs) acc).
Proof.
  induction dirs as [|d r IH]; intros acc; cbn [secret_values_from existsb map fold_left]; [reflexivity|].
  destruct d as [| |es]; cbn [is_sdfile orb dir_env].
  - rewrite IH, env_update_nil. reflexivity.
  - reflexivity.
  - rewrite IH. reflexivity.
Qed.

Lemma secret_values_eq dirs :
  secret_values dirs = if existsb is_sdfile dirs then None else Some (merge_files (map dir_env dirs)).
Proof. unfold secret_values, merge_files. apply secret_values_from_eq. Qed.

Lemma existsb_sdfile dirs : existsb is_sdfile dirs = true <-> In SDIsFile dirs.
Proof.
  rewrite existsb_exists. split.
  - intros [d [Hd E]]. destruct d; try discriminate E. exact Hd.
  - intros H. exists SDIsFile. split; [exact H | reflexivity].
Qed.

Lemma secret_values_none dirs : secret_values dirs = None <-> In SDIsFile dirs.
Proof.
  rewrite secret_values_eq, <- existsb_sdfile. destruct (existsb is_sdfile dirs); split; congruence.
Qed.

Lemma secret_values_get dirs e v :
  secret_values dirs = Some e -> get e v = last_def (map dir_env dirs) v.
Proof.
  rewrite secret_values_eq. destruct (existsb is_sdfile dirs); [discriminate|].
  intros E. injection E as <-. apply get_merge_files.
Qed.

Lemma dom_files_of es n : In n (dom (files_of es)) -> In n (map fst es).
Proof.
  induction es as [|[n' d] r IH]; cbn [files_of flat_map dom map fst snd]; [tauto|].
  destruct d; cbn [app map fst In].
  - fold (files_of r). fold (dom (files_of r)). intros [E|H]; [left; exact E | right; apply IH, H].
  - fold (files_of r). fold (dom (files_of r)). intros H. right. apply IH, H.
Qed.

Lemma nodup_files_of es : NoDup (map fst es) -> NoDup (dom (files_of es)).
Proof.
  induction es as [|[n' d] r IH]; cbn [files_of flat_map dom map fst snd]; intros N; [constructor|].
  inversion N as [|? ? Hn Nr]; subst. fold (files_of r).
  destruct d; cbn [app map fst].
  - fold (dom (files_of r)). constructor; [|apply IH, Nr]. intros H. apply Hn, dom_files_of, H.
  - apply IH, Nr.
Qed.

Lemma files_of_get es n c :
  NoDup (map fst es) -> In (n, DEFile c) es -> get (files_of es) n = Some c.
Proof.
  induction es as [|[n' d] r IH]; cbn [In]; [tauto|].
  intros N [E|H].
  - injection E as -> ->. cbn [files_of flat_map snd fst app get].
    eqb_case n n; [reflexivity | congruence].
  - cbn [map fst] in N. inversion N as [|? ? Hn Nr]; subst.
    assert (Hne : n <> n').
    { intros ->. apply Hn. apply (in_map fst) in H. exact H. }
    cbn [files_of flat_map snd fst]. fold (files_of r).
    destruct d; cbn [app get]; [|apply IH; assumption].
    eqb_case n n'; [contradiction | apply IH; assumption].
Qed.

Lemma files_of_get_none es n :
  (forall c, ~ In (n, DEFile c) es) -> get (files_of es) n = None.
Proof.
  induction es as [|[n' d] r IH]; intros H; [reflexivity|].
  cbn [files_of flat_map snd fst]. fold (files_of r).
  assert (Hr : forall c, ~ In (n, DEFile c) r) by (intros c Hc; apply (H c); right; exact Hc).
  destruct d as [c'|]; cbn [app get]; [|apply IH, Hr].
  eqb_case n n'; [|apply IH, Hr].
  subst n'. exfalso. apply (H c'). left. reflexivity.
Qed.

Lemma dir_value es n :
  NoDup (map fst es) ->
  (forall c, In (n, DEFile c) es -> get (rev (dir_env (SDDir es))) n = Some c) /\
  ((forall c, ~ In (n, DEFile c) es) -> get (rev (dir_env (SDDir es))) n = None).
Proof.
  intros N. cbn [dir_env]. rewrite get_rev_nodup by (apply nodup_files_of, N). split.
  - intros c H. apply files_of_get; assumption.
  - apply files_of_get_none.
Qed.

Lemma secret_values_all dirs :
  (secret_values dirs = None <-> In SDIsFile dirs) /\
  (forall e, secret_values dirs = Some e ->
     e = merge_files (map dir_env dirs) /\ forall v, get e v = last_def (map dir_env dirs) v) /\
  (forall es n, NoDup (map fst es) ->
     (forall c, In (n, DEFile c) es -> get (rev (dir_env (SDDir es))) n = Some c) /\
     ((forall c, ~ In (n, DEFile c) es) -> get (rev (dir_env (SDDir es))) n = None)) /\
  (forall v, get (rev (dir_env SDAbsent)) v = None).
Proof.
  split; [apply secret_values_none|]. split; [|split; [intros es n; apply dir_value | reflexivity]].
  intros e H. split; [|intros v; apply secret_values_get, H].
  rewrite secret_values_eq in H. destruct (existsb is_sdfile dirs); [discriminate|]. congruence.
Qed.

(* instantiation over the file system: ValueError exactly when a path is a file, os.environ untouched in
   both cases; otherwise the outcome is the one of the environment overlaid with the directories *)
Lemma env_reload_os st : os_env (env_reload st) = os_env st.
Proof. reflexivity. Qed.

Lemma instantiate_os st c a : os_env (fst (instantiate st c a)) = os_env st.
Proof.
  pose proof (library_op_os st (OpInst c a) eq_refl) as H. cbn [step] in H.
  destruct (instantiate st c a) as [st' o]. exact H.
Qed.

Lemma instantiate_fs_os st c a dirs : os_env (fst (instantiate_fs st c a dirs)) = os_env st.
Proof.
  unfold instantiate_fs. destruct (secret_values dirs).
  - pose proof (instantiate_os st c (set_secrets a (map dir_env dirs))) as H.
    destruct (instantiate st c (set_secrets a (map dir_env dirs))) as [st' o]. exact H.
  - cbn [fst run_pstep]. destruct (a_reload a); [apply env_reload_os | apply load_environ_os].
Qed.

Lemma instantiate_fs_all os0 h c a dirs :
  a_reload a = true ->
  let st := run (init_state os0) h in
  let e := overlay (user_edits os0 h) (map dir_env dirs) (eff_dotenv c a) in
  (snd (instantiate_fs st c a dirs) = FValueError <-> In SDIsFile dirs) /\
  (~ In SDIsFile dirs ->
   exists o, snd (instantiate_fs st c a dirs) = FOk o /\
     adm_outcome e c (set_secrets a (map dir_env dirs)) o /\
     (deterministic e (c_prio c) (eff_prefix c a) (a_kwargs a) (c_fields c) = true ->
      o = outcome_of (c_fields c) (ref_resolve e (c_prio c) (eff_prefix c a) (a_kwargs a) (c_fields c)))) /\
  os_env (fst (instantiate_fs st c a dirs)) = user_edits os0 h.
Proof.
  intros R st e. split; [|split].
  - unfold instantiate_fs. rewrite <- secret_values_none. destruct (secret_values dirs) eqn:E.
    + destruct (instantiate st c (set_secrets a (map dir_env dirs))). cbn [snd]. split; discriminate.
    + cbn [snd]. split; reflexivity.
  - intros NF. unfold instantiate_fs.
    destruct (secret_values dirs) eqn:E; [|apply secret_values_none in E; contradiction].
    pose proof (reload_any_history os0 h c (set_secrets a (map dir_env dirs)) R) as H.
    cbn zeta in H. fold st in H. destruct H as [H1 [H2 _]].
    destruct (instantiate st c (set_secrets a (map dir_env dirs))) as [st' o]. cbn [snd] in *.
    exists o. split; [reflexivity|]. split; [exact H1 | exact H2].
  - rewrite instantiate_fs_os. unfold st. rewrite run_os. reflexivity.
Qed.

(* ---- 5. default_factory freshness ------------------------------------------------------------------------ *)
Lemma aval_of_spec k n s :
  (s = SKwarg -> aval_of k n s = (n, AKwarg)) /\
  (forall var v, s = SEnv var v -> aval_of k n s = (n, AEnv var v)) /\
  (forall j, snd (aval_of k n s) = AFresh j -> k = DKFactory /\ s = SDefault /\ j = n /\ fst (aval_of k n s) = Datatypes.S n) /\
  (k = DKFactory -> s = SDefault -> aval_of k n s = (Datatypes.S n, AFresh n)) /\
  (k = DKValue -> s = SDefault -> aval_of k n s = (n, AShared)).
Proof.
  repeat split; try (intros; subst; reflexivity);
    destruct s, k; cbn [aval_of snd fst] in *; try discriminate; congruence.
Qed.

Lemma attr_values_bounds ks : forall ss n,
  n <= fst (attr_values n ks ss) /\
  (forall k, In k (stamps (snd (attr_values n ks ss))) -> n <= k < fst (attr_values n ks ss)) /\
  NoDup (stamps (snd (attr_values n ks ss))).
Proof.
  induction ks as [|k kr IH]; intros ss n; cbn [attr_values].
  - unfold stamps; cbn [fst snd flat_map]. split; [lia|]. split; [intros ? [] | constructor].
  - destruct ss as [|s sr].
    + unfold stamps; cbn [fst snd flat_map]. split; [lia|]. split; [intros ? [] | constructor].
    + destruct (aval_of k n s) as [n1 v] eqn:A.
      specialize (IH sr n1). destruct (attr_values n1 kr sr) as [n2 vs]. cbn [fst snd] in *.
      destruct IH as [L [B N]].
      assert (Hn1 : n <= n1 /\ (forall j, In j (stamp_of v) -> j = n /\ n1 = Datatypes.S n)).
      { destruct s, k; cbn [aval_of] in A; injection A as <- <-; cbn [stamp_of In];
          split; try lia; intros j []; try tauto; subst; split; reflexivity. }
      destruct Hn1 as [L1 Hv]. unfold stamps. cbn [flat_map]. fold (stamps vs).
      split; [lia|]. split.
      * intros j Hj. apply in_app_or in Hj. destruct Hj as [Hj|Hj].
        -- destruct (Hv j Hj) as [-> ->]. lia.
        -- specialize (B j Hj). lia.
      * destruct v; cbn [stamp_of app]; try exact N.
        constructor; [|exact N]. intros Hin. specialize (B _ Hin).
        destruct (Hv stamp (or_introl eq_refl)) as [-> ->]. lia.
Qed.

Lemma nodup_app_lt (l1 l2 : list nat) m :
  NoDup l1 -> NoDup l2 -> (forall k, In k l1 -> k < m) -> (forall k, In k l2 -> m <= k) -> NoDup (l1 ++ l2).
Proof.
  intros N1 N2 H1 H2. induction N1 as [|x l Hx N IH]; cbn [app]; [exact N2|].
  constructor.
  - intros Hin. apply in_app_or in Hin. destruct Hin as [Hin|Hin]; [contradiction|].
    specialize (H1 x (or_introl eq_refl)). specialize (H2 x Hin). lia.
  - apply IH. intros k Hk. apply H1. right. exact Hk.
Qed.

Lemma stamp_all_fresh items : forall n,
  NoDup (flat_map stamps (stamp_all n items)) /\
  (forall k, In k (flat_map stamps (stamp_all n items)) -> n <= k).
Proof.
  induction items as [|[ks ss] r IH]; intros n; cbn [stamp_all].
  - cbn [flat_map]. split; [constructor | intros ? []].
  - pose proof (attr_values_bounds ks ss n) as [L [B N]].
    destruct (attr_values n ks ss) as [n' vs]. cbn [fst snd] in *.
    destruct (IH n') as [Nr Br]. cbn [flat_map]. split.
    + apply (nodup_app_lt _ _ n'); try assumption. intros k Hk. apply B, Hk.
    + intros k Hk. apply in_app_or in Hk. destruct Hk as [Hk|Hk]; [apply B, Hk|].
      specialize (Br k Hk). lia.
Qed.

(* the stamps of a whole history, whatever the operations, classes, arguments and default kinds *)
Lemma history_fresh os ops : NoDup (flat_map stamps (stamp_all 0 (trace_items (init_state os) ops))).
Proof. apply stamp_all_fresh. Qed.
