(* FamFrameProofs.v — every function of FamModel.v is `local` (FamLogic.v) on the side of the class it is
   called for; hence the separation invariant is preserved by every operation and the FRAME theorem holds
   for ALL histories: the outcomes of a family G are those of the history projected on G. *)
From DW Require Import PyStr StrConv StateModel StatePure StateBasics FamModel FamLogic.
From Coq Require Import Lia.

(* ---------------------------------------------------------------- induction on declarations *)
Lemma fdecl_ind' (P : fdecl -> Prop) :
  (forall info fs, Forall (fun f => match snd (fst f) with TNested dm => P dm | _ => True end) fs -> P (FDecl info fs)) ->
  forall d, P d.
Proof.
  intros H. fix IH 1. intros [info fs]. apply H.
  induction fs as [|[[x ty] dv] r IHr]; constructor; [|exact IHr].
  cbn. destruct ty; [exact I|exact I|apply IH].
Qed.

Lemma fsubtrees_unfold info fs :
  fsubtrees (FDecl info fs) =
  flat_map (fun f => match snd (fst f) with TNested dm => dm :: fsubtrees dm | _ => [] end) fs.
Proof.
  cbn. induction fs as [|[[x ty] dv] r IHr]; [reflexivity|].
  destruct ty; cbn; try exact IHr. f_equal. f_equal. exact IHr.
Qed.

Section Frame.
Variable env : denv.
Variable al : allocator.
Variable inG : cid -> bool.
Hypothesis Hsep : sep_env inG env = true.
Hypothesis Hal : alloc_ok al.

Notation loc := (local env inG).
Notation D := (FamModel.D env).

(* ---------------------------------------------------------------- static facts *)
Lemma bool_eqb_eq a b : bool_eqb a b = true -> a = b.
Proof. destruct a, b; cbn; congruence. Qed.

Lemma lookD_some c d : D c = Some d -> In d env /\ fd_id d = c.
Proof.
  unfold FamModel.D, lookD. intros H. apply find_some in H. destruct H as [H1 H2].
  apply Nat.eqb_eq in H2. auto.
Qed.

Lemma env_sub d : In d env -> Forall (fun dm => inG (fd_id dm) = inG (fd_id d)) (fsubtrees d).
Proof.
  intros Hin. unfold sep_env in Hsep. rewrite forallb_forall in Hsep.
  specialize (Hsep _ Hin). apply andb_prop in Hsep. destruct Hsep as [H1 _].
  rewrite forallb_forall in H1. apply Forall_forall. intros dm Hdm. apply bool_eqb_eq. auto.
Qed.

Lemma env_qn d d' : In d env -> In d' env -> fi_qn (fd_info d) = fi_qn (fd_info d') -> inG (fd_id d) = inG (fd_id d').
Proof.
  intros Hin Hin' E. unfold sep_env in Hsep. rewrite forallb_forall in Hsep.
  specialize (Hsep _ Hin). apply andb_prop in Hsep. destruct Hsep as [_ H2].
  rewrite forallb_forall in H2. specialize (H2 _ Hin').
  apply orb_prop in H2. destruct H2 as [H2|H2].
  - rewrite E in H2. rewrite Nat.eqb_refl in H2. discriminate.
  - apply bool_eqb_eq. exact H2.
Qed.

Lemma qn_one_side q sg sg' : qn_side env inG q sg -> qn_side env inG q sg' -> sg = sg'.
Proof.
  intros (d & Hd & Eq & S1) (d' & Hd' & Eq' & S2). rewrite <- S1, <- S2. apply env_qn; congruence.
Qed.

Lemma D_decl_ok c d : D c = Some d -> decl_ok inG (inG c) d.
Proof.
  intros H. destruct (lookD_some _ _ H) as [Hin Hid]. split; [rewrite Hid; reflexivity|].
  rewrite <- Hid. apply env_sub. exact Hin.
Qed.

Lemma decl_ok_children sg info fs :
  decl_ok inG sg (FDecl info fs) ->
  Forall (fun f => match snd (fst f) with TNested dm => decl_ok inG sg dm | _ => True end) fs.
Proof.
  intros [_ H]. rewrite fsubtrees_unfold in H.
  induction fs as [|[[x ty] dv] r IHr]; constructor.
  - cbn. destruct ty; try exact I. cbn in H. inversion H as [|? ? Hd Hrest].
    split; [exact Hd|]. apply Forall_app in Hrest. tauto.
  - apply IHr. cbn in H. destruct ty; cbn in H; try exact H.
    inversion H as [|? ? Hd Hrest]. apply Forall_app in Hrest. tauto.
Qed.

(* ---------------------------------------------------------------- tactics *)
Ltac lbind := eapply local_bind; [ | intros ? ? ].
Ltac lbindt := eapply local_bind with (P := top); [ | intros ? ? ].
Tactic Notation "lbind" "as" ident(a) ident(H) := eapply local_bind; [ | intros a H ].
Ltac lret := apply local_ret.
Ltac cell_facts := repeat match goal with H : cell_ok _ _ _ _ _ |- _ => unfold cell_ok in H end.
Ltac cellok := let x := fresh "x" in let Hx := fresh "Hx" in
  intros x Hx; unfold cell_ok in *; cbn; intuition.

(* ---------------------------------------------------------------- loader / dumper classes, Meta lookups *)
Lemma self_base_idem sel n : match self_base env sel n with Some b => Some b | None => None end = self_base env sel n.
Proof. destruct (self_base env sel n); reflexivity. Qed.

Lemma get_loader_local sg n : inG n = sg -> loc sg (fun l => lc_base l = own_lbase env n) (get_loader env n None).
Proof.
  intros Hn. unfold get_loader. lbind; [apply local_getC; exact Hn|].
  destruct (fc_loader a) as [l|] eqn:E.
  - lret. unfold cell_ok in H. rewrite E in H. tauto.
  - lbind; [apply local_modC; [exact Hn|]|].
    + cellok. apply self_base_idem.
    + lret. cbn. apply self_base_idem.
Qed.

Lemma get_dumper_local sg n : inG n = sg -> loc sg (fun l => dc_base l = own_dbase env n) (get_dumper env n).
Proof.
  intros Hn. unfold get_dumper. lbind; [apply local_getC; exact Hn|].
  destruct (fc_dumper a) as [l|] eqn:E.
  - lret. unfold cell_ok in H. rewrite E in H. tauto.
  - lbind; [apply local_modC; [exact Hn|]|].
    + cellok.
    + lret. reflexivity.
Qed.

Lemma own_meta_local sg n : inG n = sg -> loc sg top (own_meta n).
Proof.
  intros Hn. unfold own_meta. lbind; [apply local_getC; exact Hn|].
  destruct (fc_meta a) as [a0|] eqn:E.
  - apply local_getH. unfold cell_ok in H. rewrite E in H. cbn in H. tauto.
  - lret. exact I.
Qed.

Lemma deref_local sg cfg : oaddr_ok inG sg cfg -> loc sg top (deref cfg).
Proof.
  intros H. destruct cfg as [a|]; cbn.
  - apply local_getH. exact H.
  - lret. exact I.
Qed.

Lemma bind_attrs_local sg n m : inG n = sg -> loc sg top (bind_attrs env n m).
Proof.
  intros Hn. unfold bind_attrs.
  lbind; [apply get_loader_local; exact Hn|].
  lbind; [apply get_dumper_local; exact Hn|].
  apply local_modC; [exact Hn|]. cellok.
Qed.

Lemma cfg_main_local sg n : inG n = sg -> loc sg (oaddr_ok inG sg) (cfg_main n).
Proof.
  intros Hn. unfold cfg_main. lbind; [apply local_getC; exact Hn|].
  destruct (fc_meta a) as [a0|] eqn:E.
  - assert (Ha : addr_ok inG sg a0) by (unfold cell_ok in H; rewrite E in H; cbn in H; tauto).
    lbind; [apply local_getH; exact Ha|].
    lret. destruct a1 as [m|]; [|exact I]. destruct (rec_of (fm m)); [exact Ha|exact I].
  - lret. exact I.
Qed.

Lemma mk_lfn_local sg n m : inG n = sg -> loc sg (lfn_ok inG sg) (mk_lfn n m).
Proof.
  intros Hn. unfold mk_lfn. lbind; [apply local_getC; exact Hn|].
  lret. exact Hn.
Qed.

Lemma rc_on_local sg cfg : oaddr_ok inG sg cfg -> loc sg top (rc_on cfg).
Proof.
  intros H. unfold rc_on. lbind; [apply deref_local; exact H|]. lret. exact I.
Qed.

(* ---------------------------------------------------------------- generating load functions *)
Lemma build_parsers_local sg c rec rc cfg fs :
  oaddr_ok inG sg cfg ->
  Forall (fun f => match snd (fst f) with
                   | TNested dm => decl_ok inG sg dm /\ loc sg (lfn_ok inG sg) (rec dm)
                   | _ => True end) fs ->
  loc sg (parsers_ok env inG c sg) (build_parsers rec (own_lbase env c) rc cfg fs).
Proof.
  intros Hcfg H. induction H as [|f r Hf Hr IH]; cbn.
  - lret. constructor.
  - eapply local_bind with (P := parser_ok env inG c sg).
    + destruct (snd (fst f)) as [| |dm].
      * lret. reflexivity.
      * lret. reflexivity.
      * destruct Hf as [Hd Hrec]. destruct rc.
        -- lret. cbn. split; [exact Hd|]. split; [exact Hcfg|exact I].
        -- lbind; [exact Hrec|]. lret. exact H.
    + intros p Hp. lbind; [exact IH|]. lret. constructor; assumption.
Qed.

Lemma parsers_step sg n cfg (l : lcls) fields (x : fcls) :
  inG n = sg -> oaddr_ok inG sg cfg -> lc_base l = own_lbase env n ->
  Forall (fun f => match snd (fst f) with
                   | TNested dm => decl_ok inG sg dm /\ loc sg (lfn_ok inG sg) (gen_nested env cfg dm)
                   | _ => True end) fields ->
  loc sg top (match fc_parsers x with
              | Some _ => ret tt
              | None =>
                  rc <- rc_on cfg ;;
                  ps <- build_parsers (fun dm => gen_nested env cfg dm) (lc_base l) rc cfg fields ;;
                  modC n (v_parsers (Some ps))
              end).
Proof.
  intros Hn Hcfg Hl Hf. destruct (fc_parsers x).
  - lret. exact I.
  - lbind; [apply rc_on_local; exact Hcfg|].
    rewrite Hl. lbind; [apply build_parsers_local; eassumption|].
    apply local_modC; [exact Hn|]. cellok.
Qed.

Lemma gen_nested_local sg : forall d, decl_ok inG sg d -> forall cfg, oaddr_ok inG sg cfg ->
  loc sg (lfn_ok inG sg) (gen_nested env cfg d).
Proof.
  induction d as [info fs IH] using fdecl_ind'. intros Hd cfg Hcfg.
  assert (Hn : inG (fi_id info) = sg) by (destruct Hd as [H _]; exact H).
  cbn [gen_nested].
  lbind; [apply get_loader_local; exact Hn|].
  lbind; [apply own_meta_local; exact Hn|].
  lbind; [apply deref_local; exact Hcfg|].
  lbind.
  { destruct a1; [apply bind_attrs_local; exact Hn|lret; exact I]. }
  lbind; [apply local_getC; exact Hn|].
  lbind.
  { apply parsers_step; try assumption.
    pose proof (decl_ok_children _ _ _ Hd) as Hc.
    clear - IH Hc Hcfg. induction fs as [|f r IHr]; constructor.
    - inversion IH; subst. inversion Hc; subst. destruct (snd (fst f)); try exact I.
      split; [assumption|]. apply H1; assumption.
    - inversion IH; subst. inversion Hc; subst. apply IHr; assumption. }
  apply mk_lfn_local. exact Hn.
Qed.

Lemma gen_main_local sg d : decl_ok inG sg d -> loc sg (lfn_ok inG sg) (gen_main env d).
Proof.
  intros Hd. destruct d as [info fs].
  assert (Hn : inG (fi_id info) = sg) by (destruct Hd as [H _]; exact H).
  unfold gen_main. cbn [fd_id fd_info fd_fields].
  lbind; [apply get_loader_local; exact Hn|].
  lbind; [apply own_meta_local; exact Hn|].
  lbind; [apply cfg_main_local; exact Hn|].
  lbind; [apply local_getC; exact Hn|].
  lbind.
  { apply parsers_step; try assumption.
    pose proof (decl_ok_children _ _ _ Hd) as Hc.
    clear - Hc H1. induction fs as [|f r IHr]; constructor.
    - inversion Hc; subst. destruct (snd (fst f)); try exact I.
      split; [assumption|]. apply gen_nested_local; assumption.
    - inversion Hc; subst. apply IHr; assumption. }
  lbind; [apply mk_lfn_local; exact Hn|].
  lbind; [apply local_modC; [exact Hn|]|].
  - cellok.
  - lret. assumption.
Qed.

(* ---------------------------------------------------------------- running load functions *)
Lemma set_parser_ok c sg x p ps : parser_ok env inG c sg p -> parsers_ok env inG c sg ps -> parsers_ok env inG c sg (set_parser x p ps).
Proof.
  intros Hp H. induction H as [|[y q] r Hq Hr IH]; cbn; [constructor|].
  destruct (pstr_eqb x y); constructor; assumption.
Qed.

Lemma assoc_parser_ok c sg x ps p : parsers_ok env inG c sg ps -> assoc_s x ps = Some p -> parser_ok env inG c sg p.
Proof.
  intros H E. apply assoc_s_in in E. unfold parsers_ok in H. rewrite Forall_forall in H. exact (H _ E).
Qed.

Lemma load_loop_local sg rec f names kv :
  lfn_ok inG sg f ->
  Forall (fun p => forall g, lfn_ok inG sg g -> loc sg top (rec g (snd p))) kv ->
  forall kw, loc sg top (load_loop env rec f names kv kw).
Proof.
  intros Hf H. induction H as [|[k v] rest Hv Hrest IH]; intros kw; cbn [load_loop].
  - lret. exact I.
  - destruct (resolve_pure names (l_tr f) k) as [x| |].
    2:{ destruct (l_raise f); [lret; exact I|apply IH]. }
    2:{ lret. exact I. }
    lbind; [apply local_getC; exact Hf|].
    destruct (fc_parsers a) as [ps|] eqn:Eps; [|lret; exact I].
    assert (Hps : parsers_ok env inG (l_cls f) sg ps) by (unfold cell_ok in H; rewrite Eps in H; tauto).
    destruct (assoc_s x ps) as [p|] eqn:Ep; [|lret; exact I].
    pose proof (assoc_parser_ok _ _ _ _ _ Hps Ep) as Hp.
    lbindt.
    2:{ destruct a0; [apply IH|lret; exact I]. }
    destruct p as [b|b|g|dm cfg [g|]]; cbn in Hp.
    + lret. exact I.
    + lret. exact I.
    + lbind; [apply Hv; exact Hp|]. lret. exact I.
    + lbind; [apply Hv; tauto|]. lret. exact I.
    + destruct Hp as (Hd & Hc & _).
      lbind; [apply gen_nested_local; eassumption|].
      lbind.
      { apply local_modC; [exact Hf|]. intros y Hy. unfold cell_ok in *. cbn.
        destruct (fc_parsers y) as [ps'|]; cbn; [|tauto].
        destruct Hy as (Y1 & Y2 & Y3). split; [exact Y1|]. split; [|exact Y3].
        apply set_parser_ok; [|exact Y2]. cbn. tauto. }
      lbind; [apply Hv; assumption|]. lret. exact I.
Qed.

Lemma exec_local sg : forall doc f, lfn_ok inG sg f -> loc sg top (exec env f doc).
Proof.
  induction doc as [| z | s | kv IH] using jv_ind'; intros f Hf; cbn [exec]; try (lret; exact I).
  destruct (D (l_cls f)) as [d|]; [|lret; exact I].
  lbind.
  - apply load_loop_local; [exact Hf|].
    apply Forall_forall. intros p Hp g Hg. rewrite Forall_forall in IH. apply (IH _ Hp). exact Hg.
  - lret. exact I.
Qed.

Lemma step_load_local sg c doc : inG c = sg -> loc sg top (step_load env c doc).
Proof.
  intros Hc. unfold step_load. lbind; [apply local_getC; exact Hc|].
  destruct (D c) as [d|] eqn:Ed; [|lret; exact I].
  destruct (fc_defined a); [|lret; exact I].
  pose proof (D_decl_ok _ _ Ed) as Hd. rewrite Hc in Hd.
  eapply local_bind with (P := lfn_ok inG sg).
  - destruct (fc_loadfn a) as [f|] eqn:Ef.
    + lret. unfold cell_ok in H. rewrite Ef in H. cbn in H. tauto.
    + apply gen_main_local. exact Hd.
  - intros f Hf. lbind; [apply exec_local; exact Hf|]. lret. exact I.
Qed.

(* ---------------------------------------------------------------- dump *)
Definition res_dfn_ok (sg : bool) (r : res fdfn) : Prop := match r with Ok g => dfn_ok env inG sg g | Er _ => True end.

Lemma gen_dump_local sg d cfg root :
  inG (fd_id d) = sg -> oaddr_ok inG sg cfg -> match root with Some r => inG r = sg | None => True end ->
  loc sg (res_dfn_ok sg) (gen_dump env d cfg root).
Proof.
  intros Hn Hcfg Hroot. unfold gen_dump.
  lbind; [apply get_dumper_local; exact Hn|].
  lbind; [apply own_meta_local; exact Hn|].
  eapply local_bind with (P := fun mc => oaddr_ok inG sg (snd mc)).
  { destruct root as [r|].
    - lbind; [apply deref_local; exact Hcfg|].
      destruct a1.
      + lbind; [apply bind_attrs_local; exact Hn|]. lret. exact Hcfg.
      + lret. exact Hcfg.
    - lbind; [apply cfg_main_local; exact Hn|]. lret. assumption. }
  intros mc Hmc.
  lbind; [apply get_dumper_local; exact Hn|].
  lbind; [apply local_getC; exact Hn|].
  eapply local_bind with (P := top).
  { destruct (fc_alias a2).
    - lret. exact I.
    - lbind; [apply local_modC; [exact Hn|cellok]|]. lret. exact I. }
  intros t _.
  destruct (keys_of t (fd_names d)); [|lret; exact I].
  lbind.
  - destruct root as [r|].
    + apply local_modC; [exact Hroot|]. intros y Hy. unfold cell_ok in *. cbn.
      intuition. constructor; [|assumption]. cbn. unfold dfn_ok. cbn. tauto.
    + apply local_modC; [exact Hn|]. intros y Hy. unfold cell_ok in *. cbn.
      intuition. unfold dfn_ok. cbn. tauto.
  - lret. cbn. unfold dfn_ok. cbn. tauto.
Qed.

Definition fclosure_ok (sg : bool) (c : fclosure) : Prop :=
  forall root b cfg, inG root = sg -> oaddr_ok inG sg cfg -> loc sg top (c root b cfg).

Lemma run_fdfn_local sg skip defaults root b cfg cl vals :
  Forall (fun p => fclosure_ok sg (snd p)) cl -> inG root = sg -> oaddr_ok inG sg cfg ->
  forall keys, loc sg top (run_fdfn skip defaults root b cfg cl vals keys).
Proof.
  intros Hcl Hroot Hcfg keys. induction keys as [|[x k] rest IH]; cbn [run_fdfn].
  - lret. exact I.
  - destruct (assoc_s x cl) as [c|] eqn:Ec; [|lret; exact I].
    destruct (assoc_s x vals) as [v|]; [|lret; exact I].
    match goal with |- context [if ?b then _ else _] => destruct b end; [exact IH|].
    apply assoc_s_in in Ec. rewrite Forall_forall in Hcl. specialize (Hcl _ Ec). cbn in Hcl.
    lbind; [apply Hcl; assumption|].
    destruct a; [|lret; exact I].
    lbind; [exact IH|]. lret. exact I.
Qed.

Lemma call_fdfn_local sg g root cl vals :
  dfn_ok env inG sg g -> inG root = sg -> Forall (fun p => fclosure_ok sg (snd p)) cl ->
  loc sg top (call_fdfn env g root cl vals).
Proof.
  intros (Hg & Hcfg & _) Hroot Hcl. unfold call_fdfn.
  destruct (D (g_cls g)); [|lret; exact I].
  destruct (keys_of (g_tr g) (fd_names f)); [|lret; exact I].
  lbind; [apply run_fdfn_local; assumption|]. lret. exact I.
Qed.

Lemma nested_dfn_ok sg m (l : list (cid * fdfn)) g :
  Forall (fun p => dfn_ok env inG sg (snd p)) l -> assoc_n m l = Some g -> dfn_ok env inG sg g.
Proof. intros H E. apply assoc_n_in in E. rewrite Forall_forall in H. exact (H _ E). Qed.

Lemma fdumpv_local sg : forall v, Forall (fun m => inG m = sg) (inst_ids v) -> fclosure_ok sg (fdumpv env v).
Proof.
  induction v as [| z | s | t z | m fs IH] using iv_ind'; intros Hids root b cfg Hroot Hcfg; cbn [fdumpv];
    try (lret; exact I).
  rewrite inst_ids_unfold in Hids. inversion Hids as [|? ? Hm Hfs].
  assert (Hcl : Forall (fun p => fclosure_ok sg (snd p)) (map (fun p => (fst p, fdumpv env (snd p))) fs)).
  { clear - IH Hfs. unfold field_inst_ids in Hfs. induction fs as [|[x v] r IHr]; cbn; constructor.
    - cbn. inversion IH as [|? ? Hh Ht]. apply Hh. cbn in Hfs. apply Forall_app in Hfs. tauto.
    - inversion IH as [|? ? Hh Ht]. apply IHr; [exact Ht|]. cbn in Hfs. apply Forall_app in Hfs. tauto. }
  lbind; [apply local_getC; exact Hroot|].
  destruct (assoc_n m (fc_nested a)) as [g|] eqn:Eg.
  - apply call_fdfn_local; try assumption.
    eapply nested_dfn_ok; [|exact Eg]. cell_facts; tauto.
  - destruct (D m) as [dm|] eqn:Edm; [|lret; exact I].
    destruct (lookD_some _ _ Edm) as [_ Hid].
    lbind; [apply gen_dump_local; [rewrite Hid; exact Hm|exact Hcfg|exact Hroot]|].
    destruct a0 as [g|e]; [|lret; exact I].
    apply call_fdfn_local; assumption.
Qed.

Lemma step_dump_local sg c fs :
  inG c = sg -> Forall (fun m => inG m = sg) (field_inst_ids fs) -> loc sg top (step_dump env (VInst c fs)).
Proof.
  intros Hc Hfs. unfold step_dump. lbind; [apply local_getC; exact Hc|].
  destruct (D c) as [d|] eqn:Ed; [|lret; exact I].
  destruct (fc_defined a); [|lret; exact I].
  destruct (lookD_some _ _ Ed) as [_ Hid].
  eapply local_bind with (P := res_dfn_ok sg).
  - destruct (fc_dumpfn a) as [g|] eqn:Eg.
    + lret. cbn. unfold cell_ok in H. rewrite Eg in H. tauto.
    + apply gen_dump_local; [rewrite Hid; exact Hc|exact I|exact I].
  - intros [g|e] Hg; [|lret; exact I].
    lbind; [|lret; exact I].
    apply call_fdfn_local; [exact Hg|exact Hc|].
    unfold fclosures. clear - Hfs. unfold field_inst_ids in Hfs.
    induction fs as [|[x v] r IHr]; cbn; constructor.
    + cbn. apply fdumpv_local. cbn in Hfs. apply Forall_app in Hfs. tauto.
    + apply IHr. cbn in Hfs. apply Forall_app in Hfs. tauto.
Qed.

(* ---------------------------------------------------------------- class statements and bindings *)
Lemma new_meta_local sg c m : inG c = sg -> loc sg (addr_ok inG sg) (new_meta al c m).
Proof.
  intros Hc. unfold new_meta.
  lbind; [apply local_askA; [exact Hal|exact Hc]|].
  lbind; [apply local_putH; exact H|].
  lbind; [apply local_modC; [exact Hc|cellok]|].
  lret. exact H.
Qed.

Lemma bind_default_local sg n a : inG n = sg -> addr_ok inG sg a -> loc sg top (bind_default env n a).
Proof.
  intros Hn Ha. unfold bind_default.
  lbind as h Hh; [apply local_getH; exact Ha|].
  destruct h as [x|]; [|lret; exact I].
  lbind as u Hu; [apply bind_attrs_local; exact Hn|].
  lbind as cx Hcx; [apply local_getC; exact Hn|].
  destruct (fc_meta cx) as [a0|] eqn:E.
  - assert (Ha0 : addr_ok inG sg a0) by (unfold cell_ok in Hcx; rewrite E in Hcx; cbn in Hcx; tauto).
    lbind as old Hold; [apply local_getH; exact Ha0|].
    destruct old; [apply local_putH; exact Ha0|lret; exact I].
  - apply local_modC; [exact Hn|]. cellok.
Qed.

Lemma step_bind_local sg c m : inG c = sg -> loc sg top (step_bind env al c m).
Proof.
  intros Hc. unfold step_bind. lbind; [apply local_getC; exact Hc|].
  destruct (D c); [|lret; exact I].
  destruct (fc_defined a); [|lret; exact I].
  lbind; [apply new_meta_local; exact Hc|].
  lbind; [apply bind_default_local; assumption|]. lret. exact I.
Qed.

Lemma step_define_local sg c : inG c = sg -> loc sg top (step_define env al c).
Proof.
  intros Hc. unfold step_define. lbind; [apply local_getC; exact Hc|].
  destruct (D c) as [d|] eqn:Ed; [|lret; exact I].
  destruct (fc_defined a); [lret; exact I|].
  destruct (lookD_some _ _ Ed) as [Hin Hid].
  assert (Hq : qn_side env inG (fi_qn (fd_info d)) sg).
  { exists d. split; [exact Hin|]. split; [reflexivity|]. rewrite Hid. exact Hc. }
  assert (Wiz : forall k, loc sg top
    (modC c (v_defined true) ;;;
     (match fi_inner (fd_info d) with Some m => a <- new_meta al c m ;; putQ (fi_qn (fd_info d)) a | None => ret tt end) ;;;
     (match k with KPyWiz => a <- new_meta al c dump_none_meta ;; bind_default env c a | _ => ret tt end) ;;;
     r <- getQ (fi_qn (fd_info d)) ;;
     (match r with Some a => bind_default env c a | None => ret tt end) ;;; ret ODone)).
  { intros k.
    lbind as u0 Hu0; [apply local_modC; [exact Hc|cellok]|].
    lbindt.
    { destruct (fi_inner (fd_info d)); [|lret; exact I].
      lbind as a1 Ha1; [apply new_meta_local; exact Hc|].
      apply local_putQ; [exact qn_one_side|exact Hq|exact Ha1]. }
    lbindt.
    { destruct k; try (lret; exact I).
      lbind as a2 Ha2; [apply new_meta_local; exact Hc|]. apply bind_default_local; assumption. }
    lbind as r Hr; [apply local_getQ; exact Hq|].
    lbindt; [|lret; exact I].
    destruct r; [apply bind_default_local; assumption|lret; exact I]. }
  destruct (fi_kind (fd_info d)).
  - destruct (fi_inner (fd_info d)); [lret; exact I|].
    lbind; [apply local_modC; [exact Hc|cellok]|]. lret. exact I.
  - exact (Wiz KWiz).
  - exact (Wiz KPyWiz).
Qed.

(* every operation is local on the side of its class *)
Lemma fstep_local o c :
  fop_class o = Some c -> closed_op inG o = true -> loc (inG c) top (fstep env al o).
Proof.
  intros Hc Hcl. destruct o as [c0|c0 m|c0 doc|v]; cbn in Hc.
  - injection Hc as ->. apply step_define_local. reflexivity.
  - injection Hc as ->. apply step_bind_local. reflexivity.
  - injection Hc as ->. apply step_load_local. reflexivity.
  - destruct v as [| | | |c0 fs]; try discriminate. injection Hc as ->.
    cbn [fstep]. apply step_dump_local; [reflexivity|].
    cbn in Hcl. rewrite forallb_forall in Hcl. apply Forall_forall. intros m Hm.
    apply bool_eqb_eq. apply Hcl. exact Hm.
Qed.

(* asdict of something that is not a dataclass instance: outside the model, no effect *)
Lemma fstep_noclass o s : fop_class o = None -> fstep env al o s = (s, OErr EModel).
Proof. destruct o as [c|c m|c doc|v]; try discriminate. destruct v; try discriminate; reflexivity. Qed.

(* ---------------------------------------------------------------- the invariant over all histories *)
Lemma Inv_init : Inv env inG finit.
Proof.
  split.
  - intros c. unfold cell_ok. cbn. intuition.
  - intros q a H. discriminate.
Qed.

Lemma Inv_step s o : closed_op inG o = true -> Inv env inG s -> Inv env inG (fst (fstep env al o s)).
Proof.
  intros Hcl I0. destruct (fop_class o) as [c|] eqn:Hc.
  - destruct (fstep_local _ _ Hc Hcl) as [U _]. exact (proj1 (U _ I0)).
  - rewrite fstep_noclass by exact Hc. exact I0.
Qed.

Lemma frun_cons s o r : frun env al s (o :: r) = frun env al (fst (fstep env al o s)) r.
Proof. reflexivity. Qed.

Lemma Inv_run h : closed_hist inG h = true -> forall s, Inv env inG s -> Inv env inG (frun env al s h).
Proof.
  induction h as [|o r IH]; intros Hcl s I0; [exact I0|].
  cbn in Hcl. apply andb_prop in Hcl. destruct Hcl as [H1 H2].
  rewrite frun_cons. apply IH; [exact H2|]. apply Inv_step; assumption.
Qed.

(* ---------------------------------------------------------------- the frame theorem *)
Lemma frun_out_cons s o r :
  frun_out env al s (o :: r) = snd (fstep env al o s) :: frun_out env al (fst (fstep env al o s)) r.
Proof. cbn. destruct (fstep env al o s); reflexivity. Qed.

Lemma frame_sim h : closed_hist inG h = true ->
  forall s t, Inv env inG s -> Inv env inG t -> agree env inG true s t ->
  fouts_in inG h (frun_out env al s h) = frun_out env al t (fproj inG h).
Proof.
  induction h as [|o r IH]; intros Hcl s t Is It Ag; [reflexivity|].
  cbn in Hcl. apply andb_prop in Hcl. destruct Hcl as [H1 H2].
  rewrite frun_out_cons. cbn [fouts_in fproj filter]. unfold fop_in at 1 2.
  destruct (fop_class o) as [c|] eqn:Hc.
  2:{ rewrite fstep_noclass by exact Hc. cbn [fst]. apply IH; assumption. }
  pose proof (fstep_local _ _ Hc H1) as [U Bn].
  destruct (inG c) eqn:Ec.
  - rewrite frun_out_cons.
    destruct (Bn s t Is It Ag) as [E Ag'].
    rewrite E. f_equal.
    apply IH; [exact H2| exact (proj1 (U _ Is)) | exact (proj1 (U _ It)) | exact Ag'].
  - destruct (U _ Is) as (Is' & _ & Ag'). cbn in Ag'.
    apply IH; [exact H2|exact Is'|exact It|].
    eapply agree_trans; [apply agree_sym; exact Ag'|exact Ag].
Qed.

Theorem fam_frame h : closed_hist inG h = true ->
  fouts_in inG h (frun_out env al finit h) = frun_out env al finit (fproj inG h).
Proof.
  intros Hcl. apply frame_sim; [exact Hcl|apply Inv_init|apply Inv_init|apply agree_refl].
Qed.

Theorem fam_sep_invariant h : closed_hist inG h = true -> Inv env inG (frun env al finit h).
Proof. intros Hcl. apply Inv_run; [exact Hcl|apply Inv_init]. Qed.

End Frame.

Lemma fresh_alloc_ok : alloc_ok fresh_alloc.
Proof.
  split.
  - intros s c m. reflexivity.
  - intros s t c m E. unfold fresh_alloc. rewrite E. reflexivity.
Qed.

(* ---------------------------------------------------------------- consequences *)
(* with the trivial border (everything on one side) the static hypotheses hold for every program: the invariant
   then says, for ALL histories, that the loader / dumper class stored for a class N and the hooks captured by its
   parsers and dump functions depend only on N's own declaration *)
Lemma sep_env_all env : sep_env (fun _ => true) env = true.
Proof.
  unfold sep_env. apply forallb_forall. intros d _. apply andb_true_intro. split.
  - apply forallb_forall. intros; reflexivity.
  - apply forallb_forall. intros; apply orb_true_r.
Qed.
Lemma closed_hist_all h : closed_hist (fun _ => true) h = true.
Proof.
  unfold closed_hist. apply forallb_forall. intros o _. destruct o as [c|c m|c doc|v]; try reflexivity.
  destruct v; try reflexivity. cbn. apply forallb_forall. intros; reflexivity.
Qed.

Theorem fam_loader_own env al h : alloc_ok al ->
  forall n,
    (forall l, fc_loader (fs_cls (frun env al finit h) n) = Some l -> lc_base l = own_lbase env n) /\
    (forall l, fc_dumper (fs_cls (frun env al finit h) n) = Some l -> dc_base l = own_dbase env n) /\
    (forall ps x b, fc_parsers (fs_cls (frun env al finit h) n) = Some ps ->
                    (In (x, QInt b) ps \/ In (x, QStr b) ps) -> b = own_lbase env n).
Proof.
  intros Hal n.
  pose proof (fam_sep_invariant env al (fun _ => true) (sep_env_all env) Hal h (closed_hist_all h)) as [Ic _].
  specialize (Ic n). unfold cell_ok in Ic. destruct Ic as (_ & Hp & _ & _ & _ & Hl & Hd).
  split; [|split].
  - intros l E. rewrite E in Hl. exact Hl.
  - intros l E. rewrite E in Hd. exact Hd.
  - intros ps x b E Hin. rewrite E in Hp. unfold parsers_ok in Hp. rewrite Forall_forall in Hp.
    destruct Hin as [Hin|Hin]; specialize (Hp _ Hin); exact Hp.
Qed.

(* one Meta object referenced by classes on both sides of a border contradicts the separation invariant *)
Theorem shared_meta_not_separated env inG s c c' a :
  inG c <> inG c' -> fc_meta (fs_cls s c) = Some a -> fc_meta (fs_cls s c') = Some a -> ~ Inv env inG s.
Proof.
  intros Hne E E' [Ic _].
  pose proof (Ic c) as H1. pose proof (Ic c') as H2. unfold cell_ok in H1, H2.
  rewrite E in H1. rewrite E' in H2. cbn in H1, H2. unfold addr_ok in H1, H2.
  apply Hne. destruct H1 as [H1 _]. destruct H2 as [H2 _]. congruence.
Qed.
