(* CoreDumpProofs.v — lemmas for property C03 about the model in CoreDump.v. *)
From DW Require Import CoreDump T_CoreDumpHooks CharFacts.
From Coq Require Import ZArith Lia.

(* ---- induction principle for the nested value type ---------------------- *)
Section PvInd.
Variable P : pv -> Prop.
Hypothesis HNone : P VNone.
Hypothesis HBool : forall b, P (VBool b).
Hypothesis HInt : forall z, P (VInt z).
Hypothesis HFloat : forall h, P (VFloat h).
Hypothesis HStr : forall s, P (VStr s).
Hypothesis HBytes : forall m r b, P (VBytes m r b).
Hypothesis HSeq : forall k o xs, Forall P xs -> P (VSeq k o xs).
Hypothesis HDict : forall k o kvs, Forall (fun kv => P (fst kv) /\ P (snd kv)) kvs -> P (VDict k o kvs).
Hypothesis HEnum : forall e m x, P x -> P (VEnum e m x).
Hypothesis HTok : forall t, P (VTok t).
Hypothesis HNT : forall n xs, Forall P xs -> P (VNT n xs).
Hypothesis HInst : forall c xs, Forall P xs -> P (VInst c xs).

Fixpoint pv_ind' (v : pv) : P v :=
  let fix go (l : list pv) : Forall P l :=
    match l with [] => Forall_nil _ | x :: r => Forall_cons _ (pv_ind' x) (go r) end in
  let fix gokv (l : list (pv * pv)) : Forall (fun kv => P (fst kv) /\ P (snd kv)) l :=
    match l with
    | [] => Forall_nil _
    | (k, x) :: r => Forall_cons (k, x) (conj (pv_ind' k) (pv_ind' x)) (gokv r)
    end in
  match v with
  | VNone => HNone | VBool b => HBool b | VInt z => HInt z | VFloat h => HFloat h
  | VStr s => HStr s | VBytes m r b => HBytes m r b
  | VSeq k o xs => HSeq k o xs (go xs)
  | VDict k o kvs => HDict k o kvs (gokv kvs)
  | VEnum e m x => HEnum e m x (pv_ind' x)
  | VTok t => HTok t
  | VNT n xs => HNT n xs (go xs)
  | VInst c xs => HInst c xs (go xs)
  end.
End PvInd.

(* ---- generic facts about res / seqR -------------------------------------- *)
Lemma rmap_rmap {A B C} (f : A -> B) (g : B -> C) r : rmap g (rmap f r) = rmap (fun a => g (f a)) r.
Proof. destruct r; reflexivity. Qed.

Lemma seqR_map_rel {A B} (f g : A -> res B) (h : B -> B) (l : list A) :
  Forall (fun x => rmap h (f x) = g x) l ->
  rmap (map h) (seqR (map f l)) = seqR (map g l).
Proof.
  induction 1 as [|x l Hx Hl IH]; [reflexivity|].
  cbn [map seqR]. rewrite <- Hx, <- IH.
  destruct (f x); cbn [rmap]; [|reflexivity].
  destruct (seqR (map f l)); reflexivity.
Qed.

Lemma seqR_ok_forall {A B} (f : A -> res B) (Q : B -> Prop) (l : list A) ws :
  Forall (fun x => forall w, f x = Ok w -> Q w) l ->
  seqR (map f l) = Ok ws -> Forall Q ws.
Proof.
  intros H; revert ws; induction H as [|x l Hx Hl IH]; intros ws E; cbn [map seqR] in E.
  - inversion E; constructor.
  - destruct (f x) eqn:Ex; [|discriminate].
    destruct (seqR (map f l)) eqn:El; [|discriminate]. inversion E; subst.
    constructor; [apply Hx; reflexivity | apply IH; reflexivity].
Qed.

(* ---- unfolding equation for dump ------------------------------------------ *)
Lemma dump_eq h cfg v :
  dump h cfg v =
  match dispatch (hooks h cfg) v with
  | HIdent => Ok v
  | HBytes => match v with VBytes _ _ b64 => Ok (VStr b64) | _ => unmod "dump_with_bytes" end
  | HEnumValue => match v with VEnum _ _ x => Ok x | _ => unmod "dump_with_enum" end
  | HUuidHex => match v with VTok t => Ok (VStr (tk_aux t)) | _ => unmod "dump_with_uuid" end
  | HIterable =>
      match v with
      | VSeq _ _ xs => rmap (VSeq SList false) (seqR (map (dump h cfg) xs))
      | _ => unmod "dump_with_iterable"
      end
  | HListTuple =>
      match v with
      | VSeq k _ xs => rmap (VSeq k false) (seqR (map (dump h cfg) xs))
      | _ => unmod "dump_with_list_or_tuple"
      end
  | HNamedTuple =>
      match v with
      | VNT n xs => rmap (VNT n) (seqR (map (dump h cfg) xs))
      | _ => unmod "dump_with_named_tuple"
      end
  | HDict =>
      match v with
      | VDict k _ kvs =>
          rmap (VDict k false)
               (seqR (map (fun kv => bind (dump h cfg (fst kv)) (fun k' =>
                                     bind (dump h cfg (snd kv)) (fun v' => Ok (k', v')))) kvs))
      | _ => unmod "dump_with_dict"
      end
  | HDefaultDict =>
      match v with
      | VDict _ _ kvs =>
          rmap (VDict DDict false)
               (seqR (map (fun kv => bind (dump h cfg (fst kv)) (fun k' =>
                                     bind (dump h cfg (snd kv)) (fun v' => Ok (k', v')))) kvs))
      | _ => unmod "dump_with_defaultdict"
      end
  | HStr | HIso | HDefaultStr =>
      match v with VTok t => Ok (VStr (tk_str t)) | _ => unmod "str()" end
  | HIsoZ =>
      match v with
      | VTok t => Ok (VStr (iso_z (tk_str t)))
      | _ => unmod "dump_with_datetime"
      end
  | HTimestamp => match v with VTok t => Ok (VInt (tk_num t)) | _ => unmod "timestamp" end
  | HData =>
      match v with
      | VInst c xs =>
          rmap (fun items => VDict DDict false (add_tag cfg c items))
               (field_items cfg (c_fields c) (map (dump h cfg) xs))
      | _ => unmod "cls_asdict"
      end
  | HUnknown n => Err (EUnmodelled n)
  end.
Proof. destruct v; reflexivity. Qed.

(* ---- the dispatch of the pinned registry, per runtime type ---------------- *)
Definition H0 (cfg : dcfg) := hooks dump_hooks_v0 cfg.

Ltac disp := intros; unfold H0, hooks;
  repeat match goal with
         | c : dcfg |- _ => destruct c as [? [] ?]
         | k : skind |- _ => destruct k
         | k : dkind |- _ => destruct k
         | b : bool |- _ => destruct b
         end; reflexivity.

Lemma disp_none cfg : dispatch (H0 cfg) VNone = HIdent. Proof. disp. Qed.
Lemma disp_bool cfg b : dispatch (H0 cfg) (VBool b) = HIdent. Proof. disp. Qed.
Lemma disp_int cfg z : dispatch (H0 cfg) (VInt z) = HIdent. Proof. disp. Qed.
Lemma disp_float cfg h : dispatch (H0 cfg) (VFloat h) = HIdent. Proof. disp. Qed.
Lemma disp_str cfg s : dispatch (H0 cfg) (VStr s) = HIdent. Proof. disp. Qed.
Lemma disp_bytes cfg m r b : dispatch (H0 cfg) (VBytes m r b) = HBytes. Proof. disp. Qed.
Lemma disp_seq cfg k o xs :
  dispatch (H0 cfg) (VSeq k o xs) =
  match k with SList | STuple => HListTuple | _ => HIterable end.
Proof. disp. Qed.
Lemma disp_dict cfg k o kvs :
  dispatch (H0 cfg) (VDict k o kvs) =
  match k with DDefault => HDefaultDict | _ => HDict end.
Proof. disp. Qed.
Lemma disp_enum cfg e m x :
  dispatch (H0 cfg) (VEnum e m x) =
  match e_mix e with EPlain => HEnumValue | _ => HIdent end.
Proof. destruct cfg as [? [] ?], e as [? ? []]; reflexivity. Qed.
Lemma disp_tok cfg t :
  dispatch (H0 cfg) (VTok t) =
  match tk_kind t with
  | KUUID => HUuidHex
  | KDecimal | KTimedelta => HStr
  | KPath => HDefaultStr
  | KDate => match d_dt cfg with DtIso => HIso | DtTimestamp => HTimestamp end
  | KDateTime => match d_dt cfg with DtIso => HIsoZ | DtTimestamp => HTimestamp end
  | KTime => HIsoZ
  end.
Proof. destruct cfg as [? [] ?], t as [[] ? ? ?]; reflexivity. Qed.
Lemma disp_nt cfg n xs : dispatch (H0 cfg) (VNT n xs) = HNamedTuple.
Proof. destruct cfg as [? [] ?]; reflexivity. Qed.
Lemma disp_inst cfg c xs : dispatch (H0 cfg) (VInst c xs) = HData.
Proof. destruct cfg as [? [] ?]; reflexivity. Qed.

(* ---- the Z rewrite: s[:-6] + 'Z' if s.endswith('+00:00') else s ------------- *)
Lemma starts_with_len p s : starts_with p s = true -> (List.length p <= List.length s)%nat.
Proof.
  revert s; induction p as [|a p IH]; intros [|b s] H; cbn in *; try lia; try discriminate.
  apply andb_true_iff in H as [_ H]. apply IH in H. lia.
Qed.

Lemma starts_with_app p q : starts_with p (p ++ q) = true.
Proof. induction p as [|a p IH]; cbn; [reflexivity|]. rewrite ascii_eqb_refl. exact IH. Qed.

Lemma starts_with_split' p s : starts_with p s = true -> exists q, s = p ++ q.
Proof.
  revert s; induction p as [|a p IH]; intros s H; [exists s; reflexivity|].
  destruct s as [|b s]; [discriminate|]. cbn in H. apply andb_true_iff in H as [Hab H].
  apply ascii_eqb_eq in Hab. subst. destruct (IH s H) as [q ->]. exists q. reflexivity.
Qed.

Lemma ends_with_off_short s : (List.length s < 6)%nat -> ends_with_off s = false.
Proof.
  induction s as [|c r IH]; intros L; [reflexivity|].
  cbn [ends_with_off]. rewrite IH by (cbn in L; lia).
  destruct (pstr_eqb (c :: r) utc_off) eqn:E; [|reflexivity].
  apply pstr_eqb_eq in E. rewrite E in L. cbn in L. lia.
Qed.

Lemma ends_with_off_app p : ends_with_off (p ++ utc_off) = true.
Proof.
  induction p as [|c p IH]; [reflexivity|]. cbn [app ends_with_off]. rewrite IH. apply orb_true_r.
Qed.

Lemma ends_with_off_split s :
  ends_with_off s = true -> s = firstn (List.length s - 6) s ++ utc_off.
Proof.
  induction s as [|c r IH]; [discriminate|].
  cbn [ends_with_off]. intros H. apply orb_true_iff in H as [H|H].
  - apply pstr_eqb_eq in H. rewrite H. reflexivity.
  - assert (L : (6 <= List.length r)%nat).
    { destruct (Nat.lt_ge_cases (List.length r) 6) as [Hlt|]; [|assumption].
      rewrite ends_with_off_short in H by assumption. discriminate. }
    cbn [List.length].
    replace (Datatypes.S (List.length r) - 6)%nat with (Datatypes.S (List.length r - 6)) by lia.
    cbn [firstn app]. f_equal. apply IH; assumption.
Qed.

(* the code's endswith (on the reversed texts) is the documented "ends with +00:00" *)
Lemma py_endswith_off s : py_endswith utc_off s = ends_with_off s.
Proof.
  unfold py_endswith. destruct (ends_with_off s) eqn:E.
  - apply ends_with_off_split in E. rewrite E at 1. rewrite rev_app_distr. apply starts_with_app.
  - destruct (starts_with (rev utc_off) (rev s)) eqn:F; [|reflexivity].
    apply starts_with_split' in F as [q Hq].
    assert (Hs : s = rev q ++ utc_off).
    { rewrite <- (rev_involutive s), Hq, rev_app_distr, rev_involutive. reflexivity. }
    rewrite Hs, ends_with_off_app in E. discriminate.
Qed.

Lemma z_rewrite s : iso_z s = ref_z s.
Proof. unfold iso_z, ref_z. rewrite py_endswith_off. reflexivity. Qed.

(* ---- C03 main refinement: dispatch machinery = documented encoding -------- *)
Definition dmx_pair (kv : pv * pv) : pv * pv := (demix (fst kv), demix (snd kv)).

Lemma demix_scalar x : enum_value_ok x = true -> demix x = x.
Proof. destruct x; cbn; congruence. Qed.

Lemma field_items_rel cfg (f g : pv -> res pv) fs xs :
  Forall (fun x => rmap demix (f x) = g x) xs ->
  rmap (map dmx_pair) (field_items cfg fs (map f xs)) = field_items cfg fs (map g xs).
Proof.
  intros H; revert fs; induction H as [|x xs Hx Hxs IH]; intros [|fd fs]; try reflexivity.
  cbn [map field_items]. destruct (key_of cfg fd) as [k|e]; cbn [bind rmap]; [|reflexivity].
  rewrite <- Hx. destruct (f x) as [w|e]; cbn [bind rmap]; [|reflexivity].
  rewrite <- IH. destruct (field_items cfg fs (map f xs)); reflexivity.
Qed.

Lemma add_tag_demix cfg c items :
  map dmx_pair (add_tag cfg c items) = add_tag cfg c (map dmx_pair items).
Proof. unfold add_tag. destruct (c_tag c); [|reflexivity]. rewrite map_app. reflexivity. Qed.

Lemma forallb_Forall {A} (f : A -> bool) l : forallb f l = true -> Forall (fun x => f x = true) l.
Proof. intros H; apply Forall_forall; intros x Hx. eapply forallb_forall in H; eassumption. Qed.

Lemma Forall_mp {A} (P Q : A -> Prop) l : Forall (fun x => P x -> Q x) l -> Forall P l -> Forall Q l.
Proof. induction 1; intros HP; inversion HP; subst; constructor; auto. Qed.

Theorem dump_refines_ref cfg v :
  wfv v = true -> rmap demix (dump dump_hooks_v0 cfg v) = ref_encode cfg v.
Proof.
  induction v as [| | | | | |k o xs IH|k o kvs IH|e m x IH|t|n xs IH|c xs IH] using pv_ind';
    intros Hwf; rewrite dump_eq; fold (H0 cfg).
  - rewrite disp_none; reflexivity.
  - rewrite disp_bool; reflexivity.
  - rewrite disp_int; reflexivity.
  - rewrite disp_float; reflexivity.
  - rewrite disp_str; reflexivity.
  - rewrite disp_bytes; reflexivity.
  - (* VSeq *)
    cbn [wfv] in Hwf. apply forallb_Forall in Hwf. pose proof (Forall_mp _ _ _ IH Hwf) as Hrel.
    rewrite disp_seq. cbn [ref_encode]. rewrite <- (seqR_map_rel _ _ demix xs Hrel).
    destruct k; destruct (seqR (map (dump dump_hooks_v0 cfg) xs)); reflexivity.
  - (* VDict *)
    cbn [wfv] in Hwf. apply forallb_Forall in Hwf.
    assert (Hrel : Forall (fun kv =>
               rmap dmx_pair (bind (dump dump_hooks_v0 cfg (fst kv)) (fun k' =>
                              bind (dump dump_hooks_v0 cfg (snd kv)) (fun v' => Ok (k', v')))) =
               bind (ref_encode cfg (fst kv)) (fun k' =>
               bind (ref_encode cfg (snd kv)) (fun v' => Ok (k', v')))) kvs).
    { clear -IH Hwf. induction IH as [|kv kvs [Hk Hv] _ IHl]; [constructor|].
      inversion Hwf as [|? ? Hkv Hrest]; subst. apply andb_true_iff in Hkv as [Wk Wv].
      constructor; [|apply IHl; assumption].
      rewrite <- (Hk Wk), <- (Hv Wv).
      destruct (dump dump_hooks_v0 cfg (fst kv)); cbn [bind rmap]; [|reflexivity].
      destruct (dump dump_hooks_v0 cfg (snd kv)); reflexivity. }
    rewrite disp_dict. cbn [ref_encode]. rewrite <- (seqR_map_rel _ _ dmx_pair kvs Hrel).
    destruct k; match goal with |- context [seqR ?l] => destruct (seqR l) end; reflexivity.
  - (* VEnum *)
    cbn [wfv] in Hwf. rewrite disp_enum. cbn [ref_encode].
    destruct e as [eid en []]; cbn [e_mix rmap demix]; try reflexivity;
      rewrite (demix_scalar x Hwf); reflexivity.
  - (* VTok *)
    rewrite disp_tok. cbn [ref_encode]. unfold ref_tok.
    destruct (tk_kind t), (d_dt cfg); cbn [rmap demix]; try reflexivity;
      rewrite z_rewrite; reflexivity.
  - (* VNT *)
    cbn [wfv] in Hwf. apply forallb_Forall in Hwf. pose proof (Forall_mp _ _ _ IH Hwf) as Hrel.
    rewrite disp_nt. cbn [ref_encode]. rewrite <- (seqR_map_rel _ _ demix xs Hrel).
    destruct (seqR (map (dump dump_hooks_v0 cfg) xs)); reflexivity.
  - (* VInst *)
    cbn [wfv] in Hwf. apply andb_true_iff in Hwf as [_ Hwf].
    apply forallb_Forall in Hwf. pose proof (Forall_mp _ _ _ IH Hwf) as Hrel.
    rewrite disp_inst. cbn [ref_encode].
    rewrite <- (field_items_rel cfg _ _ (c_fields c) xs Hrel).
    destruct (field_items cfg (c_fields c) (map (dump dump_hooks_v0 cfg) xs)); cbn [rmap demix]; [|reflexivity].
    f_equal. f_equal. rewrite <- add_tag_demix. reflexivity.
Qed.

(* ---- freshness: no container of the result belongs to the input ----------- *)
Lemma scalar_all_new x : enum_value_ok x = true -> all_new x = true.
Proof. destruct x; cbn; congruence. Qed.

Lemma Forall_forallb {A} (f : A -> bool) l : Forall (fun x => f x = true) l -> forallb f l = true.
Proof. induction 1; cbn; [reflexivity|]. rewrite H, IHForall; reflexivity. Qed.

Lemma field_items_forall cfg (Q : pv -> Prop) fs rs items :
  Forall (fun r => forall w, r = Ok w -> Q w) rs ->
  field_items cfg fs rs = Ok items ->
  Forall (fun kv => (exists k, fst kv = VStr k) /\ Q (snd kv)) items.
Proof.
  intros H; revert fs items; induction H as [|r rs Hr Hrs IH]; intros [|fd fs] items E;
    cbn [field_items] in E; try discriminate.
  - inversion E; constructor.
  - destruct (key_of cfg fd) as [k|]; cbn [bind] in E; [|discriminate].
    destruct r as [w|]; cbn [bind] in E; [|discriminate].
    destruct (field_items cfg fs rs) as [rest|] eqn:Er; cbn [bind] in E; [|discriminate].
    inversion E; subst. constructor; [split; [eexists; reflexivity | apply Hr; reflexivity]|].
    apply IH with fs; assumption.
Qed.

Lemma Forall_map_res {A} (f : A -> res pv) (Q : pv -> Prop) l :
  Forall (fun x => forall w, f x = Ok w -> Q w) l ->
  Forall (fun r => forall w, r = Ok w -> Q w) (map f l).
Proof. induction 1; cbn; constructor; auto. Qed.

Theorem dump_fresh cfg v :
  wfv v = true -> forall w, dump dump_hooks_v0 cfg v = Ok w -> all_new w = true.
Proof.
  induction v as [| | | | | |k o xs IH|k o kvs IH|e m x IH|t|n xs IH|c xs IH] using pv_ind';
    intros Hwf w; rewrite dump_eq; fold (H0 cfg).
  - rewrite disp_none; intros E; inversion E; reflexivity.
  - rewrite disp_bool; intros E; inversion E; reflexivity.
  - rewrite disp_int; intros E; inversion E; reflexivity.
  - rewrite disp_float; intros E; inversion E; reflexivity.
  - rewrite disp_str; intros E; inversion E; reflexivity.
  - rewrite disp_bytes; intros E; inversion E; reflexivity.
  - cbn [wfv] in Hwf. apply forallb_Forall in Hwf. pose proof (Forall_mp _ _ _ IH Hwf) as Hrel.
    rewrite disp_seq. intros E.
    assert (forall kk ws, seqR (map (dump dump_hooks_v0 cfg) xs) = Ok ws -> all_new (VSeq kk false ws) = true) as Hk.
    { intros kk ws Ews. cbn [all_new negb andb]. apply Forall_forallb.
      eapply seqR_ok_forall; [|exact Ews].
      exact Hrel. }
    destruct (seqR (map (dump dump_hooks_v0 cfg) xs)) eqn:Es; destruct k; cbn [rmap] in E; try discriminate;
      inversion E; subst; apply Hk; reflexivity.
  - cbn [wfv] in Hwf. apply forallb_Forall in Hwf.
    rewrite disp_dict. intros E.
    set (f := fun kv : pv * pv => bind (dump dump_hooks_v0 cfg (fst kv)) (fun k' =>
                              bind (dump dump_hooks_v0 cfg (snd kv)) (fun v' => Ok (k', v')))) in *.
    assert (Hf : Forall (fun kv => forall p, f kv = Ok p -> all_new (fst p) && all_new (snd p) = true) kvs).
    { clear -IH Hwf. induction IH as [|kv kvs [Hk Hv] _ IHl]; [constructor|].
      inversion Hwf as [|? ? Hkv Hrest]; subst. apply andb_true_iff in Hkv as [Wk Wv].
      constructor; [|apply IHl; assumption].
      intros p. unfold f. destruct (dump dump_hooks_v0 cfg (fst kv)) eqn:E1; cbn [bind]; [|discriminate].
      destruct (dump dump_hooks_v0 cfg (snd kv)) eqn:E2; cbn [bind]; [|discriminate].
      intros Ep; inversion Ep; subst; cbn [fst snd].
      rewrite (Hk Wk _ eq_refl), (Hv Wv _ eq_refl). reflexivity. }
    assert (forall kk ws, seqR (map f kvs) = Ok ws -> all_new (VDict kk false ws) = true) as Hk.
    { intros kk ws Ews. cbn [all_new negb andb]. apply Forall_forallb.
      eapply seqR_ok_forall; [exact Hf | exact Ews]. }
    destruct (seqR (map f kvs)) eqn:Es; destruct k; cbn [rmap] in E; try discriminate;
      inversion E; subst; apply Hk; reflexivity.
  - cbn [wfv] in Hwf. rewrite disp_enum.
    destruct e as [eid en []]; cbn [e_mix]; intros E; inversion E; subst; cbn [all_new];
      apply scalar_all_new; assumption.
  - rewrite disp_tok. destruct (tk_kind t), (d_dt cfg); intros E; inversion E; reflexivity.
  - cbn [wfv] in Hwf. apply forallb_Forall in Hwf. pose proof (Forall_mp _ _ _ IH Hwf) as Hrel.
    rewrite disp_nt. intros E.
    destruct (seqR (map (dump dump_hooks_v0 cfg) xs)) eqn:Es; cbn [rmap] in E; [|discriminate].
    inversion E; subst. cbn [all_new]. apply Forall_forallb.
    eapply seqR_ok_forall; [exact Hrel|exact Es].
  - cbn [wfv] in Hwf. apply andb_true_iff in Hwf as [_ Hwf].
    apply forallb_Forall in Hwf. pose proof (Forall_mp _ _ _ IH Hwf) as Hrel.
    rewrite disp_inst. intros E.
    destruct (field_items cfg (c_fields c) (map (dump dump_hooks_v0 cfg) xs)) as [items|] eqn:Ef;
      cbn [rmap] in E; [|discriminate].
    inversion E; subst. cbn [all_new negb andb].
    assert (Hitems : Forall (fun kv => (exists k, fst kv = VStr k) /\ all_new (snd kv) = true) items).
    { apply (field_items_forall cfg (fun w => all_new w = true) _ _ _) with (2 := Ef).
      apply Forall_map_res. exact Hrel. }
    apply Forall_forallb. unfold add_tag.
    assert (Hi : Forall (fun kv => all_new (fst kv) && all_new (snd kv) = true) items).
    { eapply Forall_impl; [|exact Hitems]. intros [a b] [[k Hk] Hb]; cbn [fst snd] in *. subst.
      rewrite Hb. reflexivity. }
    destruct (c_tag c); [|assumption]. apply Forall_app; split; [assumption|].
    constructor; [reflexivity|constructor].
Qed.

(* ---- JSON safety ------------------------------------------------------------ *)
Lemma scalar_json_safe x : enum_value_ok x = true -> json_safe x = true.
Proof. destruct x; cbn; congruence. Qed.
Lemma scalar_is_scalar x : enum_value_ok x = true -> is_scalar x = true.
Proof. destruct x; cbn; congruence. Qed.

(* what a scalar-like key dumps to is acceptable to json as a key *)
Lemma dump_key_ok cfg k w :
  wfv k = true -> key_value_ok k = true -> dump dump_hooks_v0 cfg k = Ok w -> json_key_ok w = true.
Proof.
  intros Hwf Hk; rewrite dump_eq; fold (H0 cfg).
  destruct k as [| | | | | | | |e m x|t| |]; cbn in Hk; try discriminate.
  - rewrite disp_none; intros E; inversion E; reflexivity.
  - rewrite disp_bool; intros E; inversion E; reflexivity.
  - rewrite disp_int; intros E; inversion E; reflexivity.
  - rewrite disp_float; intros E; inversion E; reflexivity.
  - rewrite disp_str; intros E; inversion E; reflexivity.
  - rewrite disp_bytes; intros E; inversion E; reflexivity.
  - cbn [wfv] in Hwf. rewrite disp_enum.
    destruct e as [eid en []]; cbn [e_mix]; intros E; inversion E; subst; cbn [json_key_ok e_mix].
    + destruct w; cbn in Hwf; try discriminate; reflexivity.
    + apply scalar_is_scalar; assumption.
    + apply scalar_is_scalar; assumption.
  - rewrite disp_tok. destruct (tk_kind t), (d_dt cfg); intros E; inversion E; reflexivity.
Qed.

Theorem dump_json_safe cfg v :
  wfv v = true -> keys_scalar v = true -> forall w, dump dump_hooks_v0 cfg v = Ok w -> json_safe w = true.
Proof.
  induction v as [| | | | | |k o xs IH|k o kvs IH|e m x IH|t|n xs IH|c xs IH] using pv_ind';
    intros Hwf Hks w; rewrite dump_eq; fold (H0 cfg).
  - rewrite disp_none; intros E; inversion E; reflexivity.
  - rewrite disp_bool; intros E; inversion E; reflexivity.
  - rewrite disp_int; intros E; inversion E; reflexivity.
  - rewrite disp_float; intros E; inversion E; reflexivity.
  - rewrite disp_str; intros E; inversion E; reflexivity.
  - rewrite disp_bytes; intros E; inversion E; reflexivity.
  - cbn [wfv] in Hwf. apply forallb_Forall in Hwf. cbn [keys_scalar] in Hks. apply forallb_Forall in Hks.
    assert (Hrel' : Forall (fun x => forall w, dump dump_hooks_v0 cfg x = Ok w -> json_safe w = true) xs).
    { clear -IH Hwf Hks. induction IH; [constructor|]. inversion Hwf; inversion Hks; subst.
      constructor; [intros; eauto | auto]. }
    rewrite disp_seq. intros E.
    destruct (seqR (map (dump dump_hooks_v0 cfg) xs)) eqn:Es; destruct k; cbn [rmap] in E; try discriminate;
      inversion E; subst; cbn [json_safe]; apply Forall_forallb; eapply seqR_ok_forall; eauto.
  - cbn [wfv] in Hwf. apply forallb_Forall in Hwf. cbn [keys_scalar] in Hks. apply forallb_Forall in Hks.
    rewrite disp_dict. intros E.
    set (f := fun kv : pv * pv => bind (dump dump_hooks_v0 cfg (fst kv)) (fun k' =>
                              bind (dump dump_hooks_v0 cfg (snd kv)) (fun v' => Ok (k', v')))) in *.
    assert (Hf : Forall (fun kv => forall p, f kv = Ok p -> json_key_ok (fst p) && json_safe (snd p) = true) kvs).
    { clear -IH Hwf Hks. induction IH as [|kv kvs [Hk Hv] _ IHl]; [constructor|].
      inversion Hwf as [|? ? Hkv Hrest]; inversion Hks as [|? ? Hkk Hkrest]; subst.
      apply andb_true_iff in Hkv as [Wk Wv]. apply andb_true_iff in Hkk as [Kk Kv].
      constructor; [|apply IHl; assumption].
      intros p. unfold f. destruct (dump dump_hooks_v0 cfg (fst kv)) eqn:E1; cbn [bind]; [|discriminate].
      destruct (dump dump_hooks_v0 cfg (snd kv)) eqn:E2; cbn [bind]; [|discriminate].
      intros Ep; inversion Ep; subst; cbn [fst snd].
      rewrite (dump_key_ok cfg _ _ Wk Kk E1), (Hv Wv Kv _ eq_refl). reflexivity. }
    destruct (seqR (map f kvs)) eqn:Es; destruct k; cbn [rmap] in E; try discriminate;
      inversion E; subst; cbn [json_safe]; apply Forall_forallb; eapply seqR_ok_forall; eauto.
  - cbn [wfv] in Hwf. rewrite disp_enum.
    destruct e as [eid en []]; cbn [e_mix]; intros E; inversion E; subst; cbn [json_safe e_mix];
      first [apply scalar_json_safe | apply scalar_is_scalar]; assumption.
  - rewrite disp_tok. destruct (tk_kind t), (d_dt cfg); intros E; inversion E; reflexivity.
  - cbn [wfv] in Hwf. apply forallb_Forall in Hwf. cbn [keys_scalar] in Hks. apply forallb_Forall in Hks.
    assert (Hrel' : Forall (fun x => forall w, dump dump_hooks_v0 cfg x = Ok w -> json_safe w = true) xs).
    { clear -IH Hwf Hks. induction IH; [constructor|]. inversion Hwf; inversion Hks; subst.
      constructor; [intros; eauto | auto]. }
    rewrite disp_nt. intros E.
    destruct (seqR (map (dump dump_hooks_v0 cfg) xs)) eqn:Es; cbn [rmap] in E; [|discriminate].
    inversion E; subst. cbn [json_safe]. apply Forall_forallb. eapply seqR_ok_forall; eauto.
  - cbn [wfv] in Hwf. apply andb_true_iff in Hwf as [_ Hwf].
    apply forallb_Forall in Hwf. cbn [keys_scalar] in Hks. apply forallb_Forall in Hks.
    assert (Hrel' : Forall (fun x => forall w, dump dump_hooks_v0 cfg x = Ok w -> json_safe w = true) xs).
    { clear -IH Hwf Hks. induction IH; [constructor|]. inversion Hwf; inversion Hks; subst.
      constructor; [intros; eauto | auto]. }
    rewrite disp_inst. intros E.
    destruct (field_items cfg (c_fields c) (map (dump dump_hooks_v0 cfg) xs)) as [items|] eqn:Ef;
      cbn [rmap] in E; [|discriminate].
    inversion E; subst. cbn [json_safe].
    assert (Hitems : Forall (fun kv => (exists k, fst kv = VStr k) /\ json_safe (snd kv) = true) items).
    { apply (field_items_forall cfg (fun w => json_safe w = true) _ _ _) with (2 := Ef).
      apply Forall_map_res. exact Hrel'. }
    apply Forall_forallb. unfold add_tag.
    assert (Hi : Forall (fun kv => json_key_ok (fst kv) && json_safe (snd kv) = true) items).
    { eapply Forall_impl; [|exact Hitems]. intros [a b] [[k Hk] Hb]; cbn [fst snd] in *. subst.
      rewrite Hb. reflexivity. }
    destruct (c_tag c); [|assumption]. apply Forall_app; split; [assumption|].
    constructor; [reflexivity|constructor].
Qed.

(* ---- totality: the reference encoding exists when every field name is non-empty -- *)
Fixpoint names_ok (v : pv) : bool :=
  match v with
  | VSeq _ _ xs => forallb names_ok xs
  | VDict _ _ kvs => forallb (fun kv => names_ok (fst kv) && names_ok (snd kv)) kvs
  | VNT _ xs => forallb names_ok xs
  | VInst c xs =>
      forallb (fun f => match f_name f with [] => false | c0 :: _ => negb (ascii_eqb c0 c_us) && negb (ascii_eqb c0 c_dash) && negb (ascii_eqb c0 c_sp) end)
              (c_fields c) && forallb names_ok xs
  | _ => true
  end.

Lemma collapse_nonempty c s : s <> [] -> collapse c s <> [].
Proof.
  induction s as [|x r IH]; [congruence|]. intros _. cbn [collapse].
  destruct r as [|y r']; [congruence|].
  destruct (ascii_eqb x c && ascii_eqb y c); [apply IH; congruence | congruence].
Qed.

Lemma key_of_ok cfg f :
  match f_name f with [] => false | c0 :: _ => negb (ascii_eqb c0 c_us) && negb (ascii_eqb c0 c_dash) && negb (ascii_eqb c0 c_sp) end = true ->
  exists k, key_of cfg f = Ok k.
Proof.
  intros H. unfold key_of. destruct (f_alias f); [eexists; reflexivity|].
  destruct (f_name f) as [|c0 r] eqn:En; [discriminate|].
  assert (Hne : camel_pre (c0 :: r) <> []).
  { unfold camel_pre. apply collapse_nonempty. cbn. congruence. }
  destruct (d_xf cfg); cbn [apply_xf]; unfold to_camel, to_pascal;
    try (destruct (camel_pre (c0 :: r)); [congruence|]); eexists; reflexivity.
Qed.

Theorem ref_encode_total cfg v :
  wfv v = true -> names_ok v = true -> exists w, ref_encode cfg v = Ok w.
Proof.
  induction v as [| | | | | |k o xs IH|k o kvs IH|e m x IH|t|n xs IH|c xs IH] using pv_ind';
    intros Hwf Hn; cbn [ref_encode]; try (eexists; reflexivity).
  - cbn [wfv] in Hwf. apply forallb_Forall in Hwf. cbn [names_ok] in Hn. apply forallb_Forall in Hn.
    assert (exists ws, seqR (map (ref_encode cfg) xs) = Ok ws) as [ws Hws].
    { clear -IH Hwf Hn. induction IH as [|x xs Hx _ IHl]; [eexists; reflexivity|].
      inversion Hwf as [|? ? W1 W2]; inversion Hn as [|? ? N1 N2]; subst.
      destruct (Hx W1 N1) as [w Hw]. destruct (IHl W2 N2) as [ws Hws].
      exists (w :: ws). cbn [map seqR]. rewrite Hw, Hws. reflexivity. }
    rewrite Hws. eexists; reflexivity.
  - cbn [wfv] in Hwf. apply forallb_Forall in Hwf. cbn [names_ok] in Hn. apply forallb_Forall in Hn.
    match goal with |- context [seqR ?l] => assert (exists ws, seqR l = Ok ws) as [ws Hws] end.
    { clear -IH Hwf Hn. induction IH as [|kv kvs [Hk Hv] _ IHl]; [eexists; reflexivity|].
      inversion Hwf as [|? ? Wa Wb]; inversion Hn as [|? ? Na Nb]; subst.
      apply andb_true_iff in Wa as [W1 W2]. apply andb_true_iff in Na as [N1 N2].
      destruct (Hk W1 N1) as [w1 Hw1]. destruct (Hv W2 N2) as [w2 Hw2]. destruct (IHl Wb Nb) as [ws Hws].
      exists ((w1, w2) :: ws). cbn [map seqR]. rewrite Hw1, Hw2. cbn [bind]. rewrite Hws. reflexivity. }
    rewrite Hws. eexists; reflexivity.
  - cbn [wfv] in Hwf. apply forallb_Forall in Hwf. cbn [names_ok] in Hn. apply forallb_Forall in Hn.
    assert (exists ws, seqR (map (ref_encode cfg) xs) = Ok ws) as [ws Hws].
    { clear -IH Hwf Hn. induction IH as [|x xs Hx _ IHl]; [eexists; reflexivity|].
      inversion Hwf as [|? ? W1 W2]; inversion Hn as [|? ? N1 N2]; subst.
      destruct (Hx W1 N1) as [w Hw]. destruct (IHl W2 N2) as [ws Hws].
      exists (w :: ws). cbn [map seqR]. rewrite Hw, Hws. reflexivity. }
    rewrite Hws. eexists; reflexivity.
  - cbn [wfv] in Hwf. apply andb_true_iff in Hwf as [Hlen Hwf]. apply Nat.eqb_eq in Hlen.
    apply forallb_Forall in Hwf. cbn [names_ok] in Hn. apply andb_true_iff in Hn as [Hf Hn].
    apply forallb_Forall in Hn. apply forallb_Forall in Hf.
    assert (exists items, field_items cfg (c_fields c) (map (ref_encode cfg) xs) = Ok items) as [items Hi].
    { clear -IH Hwf Hn Hf Hlen. revert Hf Hlen. generalize (c_fields c) as fs.
      induction IH as [|x xs Hx _ IHl]; intros [|fd fs] Hf Hlen; cbn in Hlen; try discriminate.
      - eexists; reflexivity.
      - inversion Hwf as [|? ? W1 W2]; inversion Hn as [|? ? N1 N2]; inversion Hf as [|? ? F1 F2]; subst.
        destruct (key_of_ok cfg fd F1) as [k Hk]. destruct (Hx W1 N1) as [w Hw].
        destruct (IHl W2 N2 fs F2) as [rest Hrest]; [lia|].
        exists ((VStr k, w) :: rest). cbn [map field_items]. rewrite Hk, Hw. cbn [bind]. rewrite Hrest. reflexivity. }
    rewrite Hi. eexists; reflexivity.
Qed.

(* ---- the Z suffix, stated directly ------------------------------------------- *)
Theorem z_suffix_written s :
  ends_with_off s = true -> exists p, s = p ++ utc_off /\ iso_z s = p ++ z_suffix.
Proof.
  intros He. exists (firstn (List.length s - 6) s). split.
  - apply ends_with_off_split; assumption.
  - rewrite z_rewrite. unfold ref_z. rewrite He. reflexivity.
Qed.

Theorem z_untouched s : ends_with_off s = false -> iso_z s = s.
Proof. intros He. rewrite z_rewrite. unfold ref_z. rewrite He. reflexivity. Qed.
