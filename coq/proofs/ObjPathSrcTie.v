(* ObjPathSrcTie.v — tie T for an algorithm: the Gallina function that harness/tables/ObjPathAlg.py
   TRANSLATES from the current source text of object_path.split_object_path (gen/T_ObjPathAlg.v,
   regenerated on every run) equals the hand-written model ObjPath.v, for every state, character
   and input string.  Any edit of the Python function that changes its meaning on some state breaks
   `step_src_eq` / `finish_src_eq` (a broken proof obligation), edits outside the translated subset
   make the translator fail closed. *)
From DW Require Import PyStr T_ObjPath ObjPath T_ObjPathAlg.
From Coq Require Import List Bool.
Import ListNotations.

Lemma ch46 : ch 46 = c_dot.  Proof. reflexivity. Qed.
Lemma ch92 : ch 92 = c_bsl.  Proof. reflexivity. Qed.
Lemma ch34 : ch 34 = c_dq.   Proof. reflexivity. Qed.
Lemma ch39 : ch 39 = c_sq.   Proof. reflexivity. Qed.
Lemma ch43 : ch 43 = c_plus. Proof. reflexivity. Qed.
Lemma ch45 : ch 45 = c_dash. Proof. reflexivity. Qed.
Lemma ch93 : ch 93 = c_rbr.  Proof. reflexivity. Qed.

Ltac split_ifs :=
  repeat match goal with
         | |- context [if ?b then _ else _] =>
             lazymatch b with
             | context [if _ then _ else _] => fail
             | _ => destruct b eqn:?
             end
         end.

Lemma init_src_eq : init_src = init.
Proof. reflexivity. Qed.

Lemma step_src_eq : forall t c, step_src t c = step t c.
Proof.
  intros [r s sn il pl ib e q pn] c.
  unfold step_src, step, classify, is_start_sep.
  rewrite ?ch46, ?ch92, ?ch34, ?ch39, ?ch43, ?ch45, ?ch93.
  cbn [res cur start_new in_literal parsed_lit in_braces esc quote poss_num].
  destruct (mem_str [c] path_start_sep) eqn:Hsep.
  - destruct il; [reflexivity|].
    destruct (ascii_eqb c c_dot) eqn:Hdot; destruct ib; cbn [andb negb]; try reflexivity;
      destruct s as [|a s]; try reflexivity;
      destruct pn; try reflexivity; destruct pl; try reflexivity;
      destruct (mem_str (a :: s) path_truthy); try reflexivity;
      destruct (mem_str (a :: s) path_falsy); reflexivity.
  - destruct (ascii_eqb c c_bsl) eqn:Hb; destruct il; cbn [andb]; try reflexivity;
      destruct e; try (destruct (quote_is q c); reflexivity);
      destruct (quote_is q c) eqn:Hq; try reflexivity;
      destruct (ascii_eqb c c_dq); destruct (ascii_eqb c c_sq); destruct sn; cbn [orb andb]; try reflexivity;
      destruct (ascii_eqb c c_plus); destruct (ascii_eqb c c_dash); destruct (is_digit c); cbn [orb andb];
      try reflexivity; destruct (ascii_eqb c c_rbr); reflexivity.
Qed.

Lemma finish_src_eq : forall t, finish_src t = finish t.
Proof.
  intros [r s sn il pl ib e q pn]. unfold finish_src, finish, classify.
  cbn [res cur start_new in_literal parsed_lit in_braces esc quote poss_num].
  destruct s as [|a s]; [reflexivity|].
  destruct pn; [reflexivity|]. destruct pl; [reflexivity|].
  destruct (mem_str (a :: s) path_truthy); [reflexivity|].
  destruct (mem_str (a :: s) path_falsy); reflexivity.
Qed.

Lemma fold_step_src_eq : forall s t, fold_left step_src s t = fold_left step s t.
Proof.
  induction s as [|c s IH]; intro t; cbn [fold_left]; [reflexivity|].
  rewrite step_src_eq. apply IH.
Qed.

Theorem split_object_path_src_eq : forall s, split_object_path_src s = split_object_path s.
Proof.
  intro s. unfold split_object_path_src, split_object_path.
  rewrite init_src_eq, fold_step_src_eq. apply finish_src_eq.
Qed.
