(* PropWizPass.v — the property_wizard loop over a class made of declarations
   with distinct public names: declarations do not interfere; closed form of
   the resulting class attributes and annotation renaming (C16). *)
From DW Require Import PyStr CharFacts PropWiz PropWizDict PropWizExec.
From Coq Require Import Lia.

Opaque under_of.

Definition prop_name (d : decl) : option pstr :=
  match d with
  | DProp PubUnder x _ _ | DProp PubPub x _ _ => Some x
  | DProp UnderPub x _ _ | DProp UnderUnder x _ _ => Some (under_of x)
  | DPlain _ _ _ => None
  | DReadOnly x | DOrdinary x => Some x
  end.

(* the Field the wrapper of a field property captures = the default the declaration
   declares: when field and property have different names the class-level value (plain
   or Field with a default / factory), else - and when the names coincide, so that only
   the annotation survives - the default implied by the annotation *)
Definition rhs_default (t : ty) (r : option rhs) : fdef :=
  match r with
  | None => dfa t
  | Some (RVal v) => fd_def v
  | Some (RField fd) => if fd_has fd then fd else dfa t
  end.

Definition eff_default (st : style) (t : ty) (r : option rhs) : fdef :=
  match st with
  | PubUnder | UnderPub => rhs_default t r
  | PubPub | UnderUnder => dfa t
  end.

Definition attr1 (d : decl) (n : pstr) : option cval :=
  match d with
  | DProp st x t r => if pstr_eqb n x then Some (CProp true (Some (eff_default st t r))) else None
  | _ => attr0 d n
  end.

Definition repl1 (d : decl) (u : pstr) : option pstr :=
  match d with
  | DProp PubUnder x _ _ | DProp UnderUnder x _ _ => if pstr_eqb u (under_of x) then Some x else None
  | _ => None
  end.

Ltac eqbs := repeat first [rewrite pstr_eqb_refl | rewrite eqb_x_ux | rewrite eqb_ux_x].

Lemma prop_name_foot d g : prop_name d = Some g -> foot d g = true.
Proof.
  destruct d as [st x t r|x t r|x|x]; try destruct st; cbn; intro H; inversion H; subst;
    unfold foot; cbn [decl_name]; eqbs; auto using orb_true_r.
Qed.

Lemma repl1_foot d u y : repl1 d u = Some y -> foot d u = true.
Proof.
  destruct d as [st x t r|x t r|x|x]; try destruct st; cbn; try discriminate;
    destruct (pstr_eqb u (under_of x)) eqn:E; try discriminate; intros _;
    unfold foot; cbn [decl_name]; rewrite E; auto using orb_true_r.
Qed.

(* ---- one active step --------------------------------------------------------------- *)
Lemma step_prop A st0 sty x t r f :
  starts_us x = false ->
  prop_name (DProp sty x t r) = Some f ->
  dget x A = dget x (ann_of (DProp sty x t r)) ->
  dget (under_of x) A = dget (under_of x) (ann_of (DProp sty x t r)) ->
  (forall n, foot (DProp sty x t r) n = true -> dget n (cur st0) = attr0 (DProp sty x t r) n) ->
  let d := DProp sty x t r in
  let st1 := pw_step A st0 (f, CProp true None) in
  (forall n, dget n (cur st1) = if foot d n then attr1 d n else dget n (cur st0)) /\
  (forall u, dget u (repls st1) = match repl1 d u with Some y => Some y | None => dget u (repls st0) end) /\
  (NoDup (keys (cur st0)) -> NoDup (keys (cur st1))).
Proof.
  intros Hpub Hf Hax Hau Hc d st1.
  pose proof (Hc x (foot_name (DProp sty x t r))) as Hcx.
  pose proof (Hc (under_of x) (foot_under (DProp sty x t r))) as Hcu.
  cbn [decl_name] in Hcx, Hcu.
  destruct sty; destruct r as [[v|fd]|]; cbn in Hf; inversion Hf; subst f; clear Hf;
    unfold attr0, decl_stmts in Hcx, Hcu; cbn in Hcx, Hcu, Hax, Hau;
    revert Hcx Hcu Hax Hau; eqbs; cbn; intros Hcx Hcu Hax Hau;
    subst st1; unfold pw_step; rewrite ?starts_us_under, ?Hpub;
    unfold process_public, process_underscored, dmem;
    rewrite ?(lstrip_under _ Hpub), ?Hax, ?Hau, ?Hcx, ?Hcu; cbn;
    try (unfold process_field; destruct (fd_has fd) eqn:Hfd; cbn);
    (split; [intro n; repeat first [rewrite dget_dset | rewrite dget_ddel]; unfold d, foot, attr1; cbn [decl_name];
      destruct (pstr_eqb n x) eqn:E1; destruct (pstr_eqb n (under_of x)) eqn:E2; cbn;
      rewrite ?Hfd; auto;
      try solve [apply pstr_eqb_eq in E1; apply pstr_eqb_eq in E2; rewrite E1 in E2; now apply under_neq in E2];
      try solve [apply pstr_eqb_eq in E2; subst n; rewrite ?Hcu; auto]
    | split; [intro u; rewrite ?dget_dset; unfold d, repl1; now destruct (pstr_eqb u (under_of x))
             | intro ND; repeat first [apply nodup_dset | apply nodup_ddel]; exact ND ]]).
Qed.

(* ---- the loop invariant ------------------------------------------------------------- *)
Section Pass.
Variable ds : list decl.
Hypothesis Hok : names_ok ds.
Let A := flat_map ann_of ds.

Definition processed (P : pstr -> bool) (d : decl) : bool :=
  match prop_name d with Some g => P g | None => false end.

Definition cur_spec (P : pstr -> bool) (n : pstr) : option cval :=
  match find_decl n ds with
  | Some d => if processed P d then attr1 d n else attr0 d n
  | None => None
  end.

Definition rep_spec (P : pstr -> bool) (u : pstr) : option pstr :=
  match find_decl u ds with
  | Some d => if processed P d then repl1 d u else None
  | None => None
  end.

Record Inv (P : pstr -> bool) (st : pwst) : Prop := {
  inv_cur : forall n, dget n (cur st) = cur_spec P n;
  inv_rep : forall u, dget u (repls st) = rep_spec P u;
  inv_nd : NoDup (keys (cur st)) }.

Lemma Inv_ext P Q st : (forall g, P g = Q g) -> Inv P st -> Inv Q st.
Proof.
  intros E [H1 H2 H3]. split; auto.
  - intro n. rewrite H1. unfold cur_spec, processed.
    destruct (find_decl n ds) as [d|]; auto. destruct (prop_name d); auto. now rewrite E.
  - intro u. rewrite H2. unfold rep_spec, processed.
    destruct (find_decl u ds) as [d|]; auto. destruct (prop_name d); auto. now rewrite E.
Qed.

Lemma pub_of d : In d ds -> starts_us (decl_name d) = false.
Proof. intro H. destruct Hok as [_ F]. rewrite Forall_forall in F. auto. Qed.

(* processing the item f leaves the status of every other declaration unchanged *)
Lemma processed_other P f d d' n :
  In d ds -> foot d f = true -> find_decl n ds = Some d' -> foot d n = false ->
  processed (fun g => P g || pstr_eqb g f) d' = processed P d'.
Proof.
  intros Hd Ff Hn Fn. unfold processed. destruct (prop_name d') as [g|] eqn:Hg; auto.
  destruct (pstr_eqb g f) eqn:E; [|apply orb_false_r].
  exfalso. apply pstr_eqb_eq in E. subst g. apply prop_name_foot in Hg.
  apply find_decl_some in Hn as [Hd' Fn'].
  pose proof (find_decl_unique ds d f Hok Hd Ff) as U1.
  pose proof (find_decl_unique ds d' f Hok Hd' Hg) as U2.
  rewrite U1 in U2. inversion U2. subst d'. rewrite Fn in Fn'. discriminate.
Qed.

(* a step that does not change the state and concerns a declaration whose
   processed / unprocessed views coincide *)
Lemma neutral_inv P st f d :
  Inv P st -> In d ds -> foot d f = true ->
  (prop_name d = Some f -> (forall n, attr1 d n = attr0 d n) /\ (forall u, repl1 d u = None)) ->
  Inv (fun g => P g || pstr_eqb g f) st.
Proof.
  intros [H1 H2 H3] Hd Ff Hneu. split; auto.
  - intro n. rewrite H1. unfold cur_spec. destruct (find_decl n ds) as [d'|] eqn:Hn; auto.
    destruct (foot d n) eqn:Fn.
    + rewrite (find_decl_unique ds d n Hok Hd Fn) in Hn. inversion Hn. subst d'.
      unfold processed. destruct (prop_name d) as [g|] eqn:Hg; auto.
      destruct (pstr_eqb g f) eqn:E; [|now rewrite orb_false_r].
      apply pstr_eqb_eq in E. subst g. destruct (Hneu eq_refl) as [Ha _]. rewrite Ha.
      now destruct (P f || true), (P f).
    + now rewrite (processed_other P f d d' n Hd Ff Hn Fn).
  - intro u. rewrite H2. unfold rep_spec. destruct (find_decl u ds) as [d'|] eqn:Hn; auto.
    destruct (foot d u) eqn:Fn.
    + rewrite (find_decl_unique ds d u Hok Hd Fn) in Hn. inversion Hn. subst d'.
      unfold processed. destruct (prop_name d) as [g|] eqn:Hg; auto.
      destruct (pstr_eqb g f) eqn:E; [|now rewrite orb_false_r].
      apply pstr_eqb_eq in E. subst g. destruct (Hneu eq_refl) as [_ Hr]. rewrite Hr.
      now destruct (P f || true), (P f).
    + now rewrite (processed_other P f d d' u Hd Ff Hn Fn).
Qed.

Lemma active_inv P st sty x t r f :
  let d := DProp sty x t r in
  Inv P st -> In d ds -> prop_name d = Some f -> P f = false ->
  Inv (fun g => P g || pstr_eqb g f) (pw_step A st (f, CProp true None)).
Proof.
  intros d [H1 H2 H3] Hd Hf HP.
  assert (Ff : foot d f = true) by now apply prop_name_foot.
  assert (Hpub : starts_us x = false) by exact (pub_of d Hd).
  assert (Hfind : forall n, foot d n = true -> find_decl n ds = Some d)
    by (intros; now apply find_decl_unique).
  assert (HA : forall n, foot d n = true -> dget n A = dget n (ann_of d)).
  { intros n Fn. unfold A. rewrite anns_get by exact Hok. now rewrite (Hfind n Fn). }
  assert (Hc : forall n, foot d n = true -> dget n (cur st) = attr0 d n).
  { intros n Fn. rewrite H1. unfold cur_spec. rewrite (Hfind n Fn). unfold processed.
    now rewrite Hf, HP. }
  destruct (step_prop A st sty x t r f Hpub Hf (HA x (foot_name d)) (HA _ (foot_under d)) Hc)
    as (S1 & S2 & S3).
  split; auto.
  - intro n. rewrite S1. fold d. unfold cur_spec. destruct (foot d n) eqn:Fn.
    + rewrite (Hfind n Fn). unfold processed. now rewrite Hf, pstr_eqb_refl, orb_true_r.
    + rewrite H1. unfold cur_spec. destruct (find_decl n ds) as [d'|] eqn:Hn; auto.
      now rewrite (processed_other P f d d' n Hd Ff Hn Fn).
  - intro u. rewrite S2. fold d. unfold rep_spec. destruct (foot d u) eqn:Fn.
    + rewrite (Hfind u Fn). unfold processed. rewrite Hf, pstr_eqb_refl, orb_true_r.
      rewrite H2. unfold rep_spec. rewrite (Hfind u Fn). unfold processed. rewrite Hf, HP.
      now destruct (repl1 d u).
    + destruct (repl1 d u) eqn:R; [apply repl1_foot in R; rewrite Fn in R; discriminate|].
      rewrite H2. unfold rep_spec. destruct (find_decl u ds) as [d'|] eqn:Hn; auto.
      now rewrite (processed_other P f d d' u Hd Ff Hn Fn).
Qed.

(* any item of the original namespace *)
Lemma step_inv P st f v d :
  Inv P st -> P f = false -> In d ds -> foot d f = true -> attr0 d f = Some v ->
  Inv (fun g => P g || pstr_eqb g f) (pw_step A st (f, v)).
Proof.
  intros HI HP Hd Ff Ha.
  assert (Hpub : starts_us (decl_name d) = false) by exact (pub_of d Hd).
  destruct (foot_cases d f Ff) as [Ef|Ef]; subst f;
  destruct d as [sty x t r|x t r|x|x]; cbn [decl_name] in *.
  (* f = x *)
  - destruct sty; destruct r as [[w|fd]|]; unfold attr0, decl_stmts in Ha; cbn in Ha;
      revert Ha; eqbs; cbn; intro Ha; inversion Ha; subst v;
      first [ now apply (active_inv P st _ x t _ x HI Hd eq_refl HP)
            | apply (neutral_inv P st x _ HI Hd Ff); cbn; intro Hx; inversion Hx as [Hy];
              symmetry in Hy; now apply under_neq in Hy ].
  - destruct r as [[w|fd]|]; unfold attr0, decl_stmts in Ha; cbn in Ha; revert Ha; eqbs; cbn;
      intro Ha; inversion Ha; subst v; apply (neutral_inv P st x _ HI Hd Ff); cbn; discriminate.
  - unfold attr0, decl_stmts in Ha; cbn in Ha; revert Ha; eqbs; cbn; intro Ha; inversion Ha; subst v.
    apply (neutral_inv P st x _ HI Hd Ff). cbn. intros _. split; auto.
  - unfold attr0, decl_stmts in Ha; cbn in Ha; revert Ha; eqbs; cbn; intro Ha; inversion Ha; subst v.
    assert (E : (if starts_us x then process_underscored A st x else process_public A st x) = st).
    { rewrite Hpub. unfold process_public, dmem.
      assert (HA : forall n, foot (DOrdinary x) n = true -> dget n A = None).
      { intros n Fn. unfold A. rewrite anns_get by exact Hok.
        now rewrite (find_decl_unique ds _ n Hok Hd Fn). }
      pose proof (HA x (foot_name (DOrdinary x))) as Hx1.
      pose proof (HA _ (foot_under (DOrdinary x))) as Hx2. cbn [decl_name] in Hx2.
      now rewrite Hx1, Hx2. }
    rewrite E. apply (neutral_inv P st x _ HI Hd Ff). cbn. intros _. split; auto.
  (* f = _x *)
  - destruct sty; destruct r as [[w|fd]|]; unfold attr0, decl_stmts in Ha; cbn in Ha;
      revert Ha; eqbs; cbn; intro Ha; inversion Ha; subst v;
      first [ now apply (active_inv P st _ x t _ (under_of x) HI Hd eq_refl HP)
            | apply (neutral_inv P st (under_of x) _ HI Hd Ff); cbn; intro Hx; inversion Hx as [Hy];
              now apply under_neq in Hy ].
  - destruct r as [[w|fd]|]; unfold attr0, decl_stmts in Ha; cbn in Ha; revert Ha; eqbs; cbn;
      intro Ha; inversion Ha.
  - unfold attr0, decl_stmts in Ha; cbn in Ha; revert Ha; eqbs; cbn; intro Ha; inversion Ha.
  - unfold attr0, decl_stmts in Ha; cbn in Ha; revert Ha; eqbs; cbn; intro Ha; inversion Ha.
Qed.

End Pass.

(* ---- the whole loop ------------------------------------------------------------------ *)
Section Loop.
Variable ds : list decl.
Hypothesis Hok : names_ok ds.
Let A := flat_map ann_of ds.

Lemma fold_inv L : forall P st,
  Inv ds P st -> NoDup (keys L) -> (forall f, In f (keys L) -> P f = false) ->
  (forall f v, In (f, v) L -> exists d, In d ds /\ foot d f = true /\ attr0 d f = Some v) ->
  Inv ds (fun g => P g || existsb (pstr_eqb g) (keys L)) (fold_left (pw_step A) L st).
Proof.
  induction L as [|[f v] L IH]; intros P st HI ND HP Hit.
  - cbn. apply (Inv_ext ds P); auto. intro g. now rewrite orb_false_r.
  - cbn [fold_left]. inversion ND as [|? ? Hn ND']. subst.
    destruct (Hit f v (or_introl eq_refl)) as (d & Hd & Ff & Ha).
    assert (HI' := step_inv ds Hok P st f v d HI (HP f (or_introl eq_refl)) Hd Ff Ha).
    apply (IH _ _) in HI'; auto.
    + eapply Inv_ext; [|exact HI']. intro g. cbn. now rewrite orb_assoc.
    + intros f' Hf'. cbn. rewrite (HP f') by now right. cbn.
      apply peqb_neq. intro E. subst. contradiction.
    + intros f' v' Hin. apply Hit. now right.
Qed.

Definition final_attr (n : pstr) : option cval :=
  match find_decl n ds with Some d => attr1 d n | None => None end.

Definition final_repl (u : pstr) : option pstr :=
  match find_decl u ds with Some d => repl1 d u | None => None end.

Lemma existsb_keys {X} g (L : dict X) : dmem g L = true -> existsb (pstr_eqb g) (keys L) = true.
Proof.
  unfold dmem. destruct (dget g L) eqn:E; [|discriminate]. intros _.
  apply dget_some_in in E. apply existsb_exists. exists g. split; [|apply pstr_eqb_refl].
  unfold keys. change g with (fst (g, x)). now apply in_map.
Qed.

Lemma pass_closed_form b : Layout ds b ->
  let c0 := exec_body b in
  let st := fold_left (pw_step (anns c0)) (attrs c0) {| cur := attrs c0; repls := [] |} in
  (forall n, dget n (cur st) = final_attr n) /\
  (forall u, dget u (repls st) = final_repl u) /\
  NoDup (keys (cur st)).
Proof.
  intros L c0 st. destruct (exec_layout ds b Hok L) as (EA & ET & ND).
  fold c0 in EA, ET, ND. subst st. rewrite EA. fold A.
  assert (H0 : Inv ds (fun _ => false) {| cur := attrs c0; repls := [] |}).
  { split; cbn; auto.
    - intro n. rewrite ET. unfold cur_spec, processed. destruct (find_decl n ds) as [d|]; auto.
      now destruct (prop_name d).
    - intro u. unfold rep_spec, processed. destruct (find_decl u ds) as [d|]; auto.
      now destruct (prop_name d). }
  assert (Hit : forall f v, In (f, v) (attrs c0) -> exists d, In d ds /\ foot d f = true /\ attr0 d f = Some v).
  { intros f v Hin. apply (in_dget _ _ _ ND) in Hin. rewrite ET in Hin.
    destruct (find_decl f ds) as [d|] eqn:Hf; [|discriminate].
    apply find_decl_some in Hf as [Hd Ff]. now exists d. }
  pose proof (fold_inv (attrs c0) _ _ H0 ND (fun _ _ => eq_refl) Hit) as [H1 H2 H3].
  assert (Hproc : forall sty x t r, In (DProp sty x t r) ds ->
             processed (fun g => false || existsb (pstr_eqb g) (keys (attrs c0))) (DProp sty x t r) = true).
  { intros sty x t r Hd. unfold processed.
    destruct (prop_name (DProp sty x t r)) as [f|] eqn:Hf; [|destruct sty; discriminate].
    cbn. apply existsb_keys. unfold dmem. rewrite ET.
    rewrite (find_decl_unique ds _ f Hok Hd (prop_name_foot _ _ Hf)).
    destruct sty; destruct r as [[w|fd]|]; cbn in Hf; inversion Hf; subst f;
      unfold attr0, decl_stmts; cbn; eqbs; reflexivity. }
  repeat split; auto.
  - intro n. rewrite H1. unfold cur_spec, final_attr. destruct (find_decl n ds) as [d|] eqn:Hn; auto.
    apply find_decl_some in Hn as [Hd _].
    destruct d as [sty x t r|x t r|x|x]; try (now destruct (processed _ _)).
    now rewrite (Hproc sty x t r Hd).
  - intro u. rewrite H2. unfold rep_spec, final_repl. destruct (find_decl u ds) as [d|] eqn:Hn; auto.
    apply find_decl_some in Hn as [Hd _].
    destruct d as [sty x t r|x t r|x|x]; try (now destruct (processed _ _)).
    now rewrite (Hproc sty x t r Hd).
Qed.

End Loop.
