(* HistValueProofs.v — the second state machine of C06 (model/HistValueModel.v):
   memo invariant over all histories, transparency, and the cache-free reference. *)
From DW Require Import PyStr StrConv CharFacts StateModel HistMemo HistMemoProofs HistValueModel.
From Coq Require Import List ZArith Bool Lia.
Import ListNotations.

(* ---------------------------------------------------------------- small facts *)
Lemma xty_eqb_eq a b : xty_eqb a b = true -> a = b.
Proof. destruct a, b; cbn; intro H; try reflexivity; discriminate H. Qed.
Lemma dkind_eqb_eq a b : dkind_eqb a b = true -> a = b.
Proof. destruct a, b; cbn; intro H; try reflexivity; discriminate H. Qed.
Lemma dkind_eqb_refl a : dkind_eqb a a = true.
Proof. destruct a; reflexivity. Qed.

Lemma eqk_same_eq a b : eqk_same a b = true -> a = b.
Proof.
  destruct a, b; cbn; intro H; try discriminate H; try reflexivity.
  - apply andb_true_iff in H as [H1 H2]. apply Z.eqb_eq in H1. apply Pos.eqb_eq in H2. congruence.
  - apply pstr_eqb_eq in H. congruence.
  - apply andb_true_iff in H as [H H3]. apply andb_true_iff in H as [H1 H2].
    apply xty_eqb_eq in H1. apply Bool.eqb_prop in H2. apply Z.eqb_eq in H3. congruence.
  - apply Z.eqb_eq in H. congruence.
  - apply pstr_eqb_eq in H. congruence.
Qed.
Lemma xv_same_eq a b : xv_same a b = true -> a = b.
Proof.
  unfold xv_same. intro H. apply andb_true_iff in H as [H H3]. apply andb_true_iff in H as [H1 H2].
  apply xty_eqb_eq in H1. apply eqk_same_eq in H2. apply pstr_eqb_eq in H3.
  destruct a, b; cbn in *; congruence.
Qed.

Lemma assoc_n_set_n {A} k k' (v : A) l :
  assoc_n k' (set_n k v l) = if Nat.eqb k' k then Some v else assoc_n k' l.
Proof.
  induction l as [|[k0 v0] r IH]; cbn [set_n assoc_n].
  - destruct (Nat.eqb k' k); reflexivity.
  - destruct (Nat.eqb k k0) eqn:E; cbn [assoc_n].
    + apply Nat.eqb_eq in E. subst k0. destruct (Nat.eqb k' k); reflexivity.
    + rewrite IH. destruct (Nat.eqb k' k0) eqn:E0; [| reflexivity].
      apply Nat.eqb_eq in E0. subst k0. destruct (Nat.eqb k' k) eqn:E1; [| reflexivity].
      apply Nat.eqb_eq in E1. subst k'. rewrite Nat.eqb_refl in E. discriminate E.
Qed.

Lemma find_def_id ds c d : find_def ds c = Some d -> xc_id d = c.
Proof.
  induction ds as [|d0 r IH]; cbn [find_def]; [discriminate |].
  destruct (Nat.eqb c (xc_id d0)) eqn:E; [| exact IH].
  intro H. injection H as <-. apply Nat.eqb_eq in E. auto.
Qed.
Lemma find_def_in ds c d : find_def ds c = Some d -> In d ds.
Proof.
  induction ds as [|d0 r IH]; cbn [find_def]; [discriminate |].
  destruct (Nat.eqb c (xc_id d0)); [intro H; injection H as <-; left; reflexivity | intro H; right; auto].
Qed.
Lemma find_field_in fs n f : find_field fs n = Some f -> In f fs.
Proof.
  induction fs as [|f0 r IH]; cbn [find_field]; [discriminate |].
  destruct (pstr_eqb n (xf_name f0)); [intro H; injection H as <-; left; reflexivity | intro H; right; auto].
Qed.

(* ---------------------------------------------------------------- the machine *)
Section MachineProofs.
  Variable shared_pat : bool.
  Variable conv0 : bool -> pstr -> xv -> cres.
  Variable dumpv : bool -> xv -> cres.
  Variable iso : dkind -> pstr -> option xv.
  Variable fromts : dkind -> pstr -> cres.
  Variable strp : nat -> dkind -> pstr -> option xv.
  Variable mk : dkind * xv -> dkind * xv -> bool.

  Notation am' := (am iso fromts).
  Notation step' := (hstep shared_pat conv0 dumpv iso fromts strp mk).
  Notation run' := (hrun shared_pat conv0 dumpv iso fromts strp mk).
  Notation d_conv' := (d_conv conv0 iso fromts strp mk).
  Notation d_loop' := (d_loop conv0 iso fromts strp mk).
  Notation d_ref' := (d_ref conv0 iso fromts strp mk).
  Notation do_load' := (do_load shared_pat conv0 iso fromts strp mk).
  Notation pure_load' := (pure_load conv0 iso fromts strp mk).
  Notation pure_hop' := (pure_hop shared_pat conv0 dumpv iso fromts strp mk).
  Notation vsound := (msound am' mk).
  Notation ksound d := (msound (resolve_x d) pstr_eqb).

  (* the memoised conversion factors through the memo's key equality *)
  Hypothesis Hfac : factors am' mk am_cacheable.

  (* the key cache is keyed by the exact key string: its function factors trivially *)
  Lemma key_factors d : factors (resolve_x d) pstr_eqb (key_cacheable d).
  Proof. intros k k' E _. apply pstr_eqb_eq in E. congruence. Qed.

  Lemma init_keys_sound d : ksound d (init_keys d).
  Proof. intros k v H. unfold resolve_x. rewrite H. reflexivity. Qed.

  (* one field conversion: answer of the table-free conversion, memo stays sound *)
  Lemma d_conv_sound an mt f v :
    vsound mt -> snd (d_conv' an mt f v) = snd (d_conv' an [] f v) /\ vsound (fst (d_conv' an mt f v)).
  Proof.
    intro Hm. unfold d_conv. destruct (xf_ty f) as [t | k | obj fmt k]; cbn [fst snd].
    - split; [reflexivity | exact Hm].
    - destruct (mcall_sound am' mk am_cacheable mt (k, v) Hfac Hm) as [E1 S1].
      destruct (mcall_sound am' mk am_cacheable [] (k, v) Hfac (msound_nil _ _)) as [E2 _].
      rewrite E1, E2. split; [reflexivity | exact S1].
    - destruct (mcall_sound am' mk am_cacheable mt (k, v) Hfac Hm) as [E1 S1].
      destruct (mcall_sound am' mk am_cacheable [] (k, v) Hfac (msound_nil _ _)) as [E2 _].
      rewrite E1, E2. split; [reflexivity | exact S1].
  Qed.

  (* the default-engine loop: outcome of the table-free loop, both tables stay sound *)
  Lemma d_loop_sound d an doc : forall kt mt kw,
    ksound d kt -> vsound mt ->
    snd (d_loop' d an doc kt mt kw) = d_ref' d an doc kw
    /\ ksound d (fst (fst (d_loop' d an doc kt mt kw))) /\ vsound (snd (fst (d_loop' d an doc kt mt kw))).
  Proof.
    induction doc as [|[k v] r IH]; intros kt mt kw Hk Hm; cbn [d_loop d_ref].
    - cbn [fst snd]. auto.
    - destruct (mcall_sound (resolve_x d) pstr_eqb (key_cacheable d) kt k (key_factors d) Hk) as [E1 S1].
      rewrite E1. destruct (resolve_x d k) as [fname | |].
      + destruct (find_field (xc_fields d) fname) as [f|]; [| cbn [fst snd]; auto].
        destruct (d_conv_sound an mt f v Hm) as [E2 S2]. rewrite E2.
        destruct (snd (d_conv' an [] f v)) as [w | e]; [apply IH; assumption | cbn [fst snd]; auto].
      + destruct (xc_raise d); [cbn [fst snd]; auto | apply IH; assumption].
      + cbn [fst snd]. auto.
  Qed.

  (* ---- invariant: every table entry equals the pure function of its key *)
  Definition gen_ok (d : xcdef) (g : gstate) : Prop :=
    (forall lg, g_load g = Some lg ->
                ksound d (lg_keys lg) /\ (xc_v1 d = true -> chains_of d (xc_fields d) = Some (lg_chain lg)))
    /\ (forall ks, g_dump g = Some ks -> dkeys_of d (xc_fields d) = Some ks).
  Definition HInv (s : hstate) : Prop :=
    (forall c g, assoc_n c (h_gen s) = Some g -> exists d, find_def (h_defs s) c = Some d /\ gen_ok d g)
    /\ vsound (h_memo s).

  Lemma gen_ok_g0 d : gen_ok d hg0.
  Proof. split; cbn; intros ? H; discriminate H. Qed.

  Lemma HInv_init : HInv hinit.
  Proof. split; [intros c g H; discriminate H | apply msound_nil]. Qed.

  Lemma gen_of_ok s c d : HInv s -> find_def (h_defs s) c = Some d -> gen_ok d (gen_of s c).
  Proof.
    intros [Hg _] Hd. unfold gen_of. destruct (assoc_n c (h_gen s)) as [g|] eqn:E; [| apply gen_ok_g0].
    destruct (Hg c g E) as [d' [Hd' Hok]]. congruence.
  Qed.

  (* the Pattern-object view a load works with *)
  Definition ann_at (s : hstate) (d : xcdef) : list (nat * dkind) :=
    match g_load (gen_of s (xc_id d)) with
    | Some _ => h_ann s
    | None => gen_ann shared_pat d (h_ann s)
    end.

  Lemma do_load_spec s d doc :
    HInv s -> find_def (h_defs s) (xc_id d) = Some d ->
    snd (do_load' s d doc) = pure_load' d (pat_view shared_pat (ann_at s d)) doc
    /\ HInv (fst (do_load' s d doc)) /\ h_defs (fst (do_load' s d doc)) = h_defs s.
  Proof.
    intros HI Hd. pose proof (gen_of_ok s (xc_id d) d HI Hd) as [Hl Hdk]. destruct HI as [Hg Hm].
    unfold do_load, pure_load, ann_at, gen_load.
    assert (Hset : forall g' ann' mt', gen_ok d g' -> vsound mt' ->
              HInv {| h_defs := h_defs s; h_gen := set_n (xc_id d) g' (h_gen s); h_ann := ann'; h_memo := mt' |}).
    { intros g' ann' mt' Hok Hm'. split; cbn [h_gen h_defs h_memo]; [| exact Hm'].
      intros c g H. rewrite assoc_n_set_n in H. destruct (Nat.eqb c (xc_id d)) eqn:E.
      - apply Nat.eqb_eq in E. subst c. injection H as <-. exists d. auto.
      - apply Hg. exact H. }
    destruct (g_load (gen_of s (xc_id d))) as [lg|] eqn:EL.
    - destruct (Hl lg eq_refl) as [Hks Hch]. destruct (xc_v1 d) eqn:V1.
      + rewrite (Hch eq_refl). cbn [fst snd]. split; [reflexivity |]. split; [| reflexivity].
        apply Hset; [| exact Hm]. split; [| exact Hdk]. cbn [g_load]. intros lg' H. injection H as <-. auto.
      + destruct (d_loop_sound d (pat_view shared_pat (h_ann s)) doc (lg_keys lg) (h_memo s) [] Hks Hm) as [E1 [S1 S2]].
        cbn [fst snd]. rewrite E1. split; [reflexivity |]. split; [| reflexivity].
        apply Hset; [| exact S2]. split; [| exact Hdk]. cbn [g_load]. intros lg' H. injection H as <-.
        cbn [lg_keys]. split; [exact S1 | intro H; congruence].
    - destruct (xc_v1 d) eqn:V1.
      + destruct (chains_of d (xc_fields d)) as [cs|] eqn:EC.
        * cbn [fst snd lg_chain]. split; [reflexivity |]. split; [| reflexivity].
          apply Hset; [| exact Hm]. split; [| exact Hdk]. cbn [g_load]. intros lg' H. injection H as <-.
          cbn [lg_keys lg_chain]. split; [apply msound_nil | auto].
        * cbn [fst snd]. split; [reflexivity |]. split; [split; assumption | reflexivity].
      + destruct (d_loop_sound d (pat_view shared_pat (gen_ann shared_pat d (h_ann s))) doc (init_keys d) (h_memo s) []
                                (init_keys_sound d) Hm) as [E1 [S1 S2]].
        cbn [fst snd lg_keys lg_chain]. rewrite E1. split; [reflexivity |]. split; [| reflexivity].
        apply Hset; [| exact S2]. split; [| exact Hdk]. cbn [g_load]. intros lg' H. injection H as <-.
        cbn [lg_keys]. split; [exact S1 | intro H; congruence].
  Qed.

  Lemma do_dump_spec s d inst :
    HInv s -> find_def (h_defs s) (xc_id d) = Some d ->
    snd (do_dump dumpv s d inst) = pure_dump dumpv d inst
    /\ HInv (fst (do_dump dumpv s d inst)) /\ h_defs (fst (do_dump dumpv s d inst)) = h_defs s
    /\ h_ann (fst (do_dump dumpv s d inst)) = h_ann s.
  Proof.
    intros HI Hd. pose proof (gen_of_ok s (xc_id d) d HI Hd) as [Hl Hdk]. destruct HI as [Hg Hm].
    unfold do_dump, pure_dump.
    destruct (g_dump (gen_of s (xc_id d))) as [ks|] eqn:ED.
    - rewrite (Hdk ks eq_refl). cbn [fst snd]. split; [reflexivity |]. split; [| split; reflexivity].
      split; cbn [set_gen h_gen h_defs h_memo]; [| exact Hm].
      intros c g H. rewrite assoc_n_set_n in H. destruct (Nat.eqb c (xc_id d)) eqn:E; [| apply Hg; exact H].
      apply Nat.eqb_eq in E. subst c. injection H as <-. exists d. split; [exact Hd |].
      split; cbn [g_load g_dump]; [exact Hl | intros ks' H; injection H as <-; auto].
    - destruct (dkeys_of d (xc_fields d)) as [ks|] eqn:EK.
      + cbn [fst snd]. split; [reflexivity |]. split; [| split; reflexivity].
        split; cbn [set_gen h_gen h_defs h_memo]; [| exact Hm].
        intros c g H. rewrite assoc_n_set_n in H. destruct (Nat.eqb c (xc_id d)) eqn:E; [| apply Hg; exact H].
        apply Nat.eqb_eq in E. subst c. injection H as <-. exists d. split; [exact Hd |].
        split; cbn [g_load g_dump]; [exact Hl | intros ks' H; injection H as <-; exact EK].
      + cbn [fst snd]. split; [reflexivity |]. split; [split; assumption | split; reflexivity].
  Qed.

  Lemma find_def_self ds c d : find_def ds c = Some d -> find_def ds (xc_id d) = Some d.
  Proof. intro H. rewrite (find_def_id ds c d H). exact H. Qed.

  (* one operation preserves the invariant *)
  Lemma hstep_inv s o : HInv s -> HInv (fst (step' s o)).
  Proof.
    intro HI. destruct o as [d | c doc | c inst]; cbn [hstep].
    - destruct (find_def (h_defs s) (xc_id d)) eqn:E; cbn [fst]; [exact HI |].
      destruct HI as [Hg Hm]. split; cbn [h_gen h_defs h_memo]; [| exact Hm].
      intros c g H. destruct (Hg c g H) as [d0 [Hd0 Hok]]. exists d0. split; [| exact Hok].
      cbn [find_def]. destruct (Nat.eqb c (xc_id d)) eqn:E1; [| exact Hd0].
      apply Nat.eqb_eq in E1. subst c. congruence.
    - destruct (find_def (h_defs s) c) as [d|] eqn:E; cbn [fst]; [| exact HI].
      apply do_load_spec; [exact HI | exact (find_def_self _ _ _ E)].
    - destruct (find_def (h_defs s) c) as [d|] eqn:E; cbn [fst]; [| exact HI].
      apply do_dump_spec; [exact HI | exact (find_def_self _ _ _ E)].
  Qed.

  Lemma hrun_inv h : forall s, HInv s -> HInv (run' s h).
  Proof.
    induction h as [|o r IH]; intros s HI; cbn [hrun fold_left]; [exact HI |].
    apply IH. apply hstep_inv. exact HI.
  Qed.

  (* ---- the definitions present after a history depend on its define operations only *)
  Lemma hstep_defs s o :
    h_defs (fst (step' s o)) =
    match o with
    | HDefine d => match find_def (h_defs s) (xc_id d) with Some _ => h_defs s | None => d :: h_defs s end
    | _ => h_defs s
    end.
  Proof.
    destruct o as [d | c doc | c inst]; cbn [hstep].
    - destruct (find_def (h_defs s) (xc_id d)); reflexivity.
    - destruct (find_def (h_defs s) c) as [d|]; [| reflexivity].
      unfold do_load. destruct (g_load (gen_of s (xc_id d))); [destruct (xc_v1 d); reflexivity |].
      destruct (gen_load d); [destruct (xc_v1 d); reflexivity | reflexivity].
    - destruct (find_def (h_defs s) c) as [d|]; [| reflexivity].
      unfold do_dump. destruct (g_dump (gen_of s (xc_id d))); [reflexivity |].
      destruct (dkeys_of d (xc_fields d)); reflexivity.
  Qed.

  Lemma hrun_defs_all h : forall s s', h_defs s = h_defs s' -> h_defs (run' s h) = h_defs (run' s' (hdefs_all h)).
  Proof.
    induction h as [|o r IH]; intros s s' E; cbn [hrun fold_left hdefs_all filter]; [exact E |].
    destruct o as [d | c doc | c inst]; cbn [h_is_def].
    - cbn [fold_left]. apply IH. rewrite !hstep_defs. rewrite E. reflexivity.
    - apply IH. rewrite hstep_defs. exact E.
    - apply IH. rewrite hstep_defs. exact E.
  Qed.

  (* ---- the type a ParseError names is the only thing the Pattern-object state can change *)
  Definition erase_c (r : cres) : cres := match r with CErr (CEParse _) => CErr (CEParse []) | _ => r end.
  Definition erase_e (e : herr) : herr := match e with HEParse c f _ => HEParse c f [] | _ => e end.

  Lemma d_conv_erase an an' f v : erase_c (snd (d_conv' an [] f v)) = erase_c (snd (d_conv' an' [] f v)).
  Proof.
    unfold d_conv. destruct (xf_ty f) as [t | k | obj fmt k]; cbn [fst snd]; try reflexivity.
    destruct (snd (mcall am' mk am_cacheable [] (k, v))); try reflexivity;
      (destruct (x_ty v); try reflexivity; destruct (strp fmt k (x_txt v)); reflexivity).
  Qed.

  Lemma d_ref_erase d an an' doc : forall kw,
    match d_ref' d an doc kw, d_ref' d an' doc kw with
    | inl e, inl e' => erase_e e = erase_e e'
    | inr a, inr b => a = b
    | _, _ => False
    end.
  Proof.
    induction doc as [|[k v] r IH]; intro kw; cbn [d_ref]; [reflexivity |].
    destruct (resolve_x d k) as [fname | |]; [| destruct (xc_raise d); [reflexivity | apply IH] | reflexivity].
    destruct (find_field (xc_fields d) fname) as [f|]; [| reflexivity].
    pose proof (d_conv_erase an an' f v) as E.
    destruct (snd (d_conv' an [] f v)) as [w | e], (snd (d_conv' an' [] f v)) as [w' | e']; cbn [erase_c] in E.
    - injection E as <-. apply IH.
    - destruct e'; discriminate E.
    - destruct e; discriminate E.
    - destruct e, e'; cbn [lift_err erase_e]; try discriminate E; try reflexivity. injection E as <-. reflexivity.
  Qed.

  Lemma pure_load_erase d an an' doc : erase_ty (pure_load' d an doc) = erase_ty (pure_load' d an' doc).
  Proof.
    unfold pure_load. destruct (xc_v1 d); [reflexivity |].
    pose proof (d_ref_erase d an an' doc []) as E.
    destruct (d_ref' d an doc []) as [e | kw], (d_ref' d an' doc []) as [e' | kw']; try contradiction.
    - destruct e, e'; cbn [erase_e] in E; try discriminate E; cbn [erase_ty]; congruence.
    - subst kw'. reflexivity.
  Qed.

  (* ---- when the Pattern view agrees with the class's own positions, the outcome is the reference outcome *)
  Lemma d_conv_agree an an' mt f v :
    (forall obj fmt k, xf_ty f = FPat obj fmt k -> an obj k = an' obj k) -> d_conv' an mt f v = d_conv' an' mt f v.
  Proof.
    intro H. unfold d_conv. destruct (xf_ty f) as [t | k | obj fmt k] eqn:E; try reflexivity.
    rewrite (H obj fmt k eq_refl). reflexivity.
  Qed.

  Lemma d_ref_agree d an an' doc :
    (forall f obj fmt k, In f (xc_fields d) -> xf_ty f = FPat obj fmt k -> an obj k = an' obj k) ->
    forall kw, d_ref' d an doc kw = d_ref' d an' doc kw.
  Proof.
    intro H. induction doc as [|[k v] r IH]; intro kw; cbn [d_ref]; [reflexivity |].
    destruct (resolve_x d k) as [fname | |]; [| destruct (xc_raise d); [reflexivity | apply IH] | reflexivity].
    destruct (find_field (xc_fields d) fname) as [f|] eqn:EF; [| reflexivity].
    rewrite (d_conv_agree an an' [] f v); [| intros obj fmt k0 E; exact (H f obj fmt k0 (find_field_in _ _ _ EF) E)].
    destruct (snd (d_conv' an' [] f v)); [apply IH | reflexivity].
  Qed.

  Lemma pure_load_agree d an an' doc :
    (forall f obj fmt k, In f (xc_fields d) -> xf_ty f = FPat obj fmt k -> an obj k = an' obj k) ->
    pure_load' d an doc = pure_load' d an' doc.
  Proof.
    intro H. unfold pure_load. destruct (xc_v1 d); [reflexivity |]. rewrite (d_ref_agree d an an' doc H). reflexivity.
  Qed.

  (* ---- outcome of one operation in an invariant state *)
  Lemma hstep_out_erased s o : HInv s -> erase_ty (snd (step' s o)) = erase_ty (pure_hop' (h_defs s) o).
  Proof.
    intro HI. destruct o as [d | c doc | c inst]; cbn [hstep pure_hop].
    - destruct (find_def (h_defs s) (xc_id d)); reflexivity.
    - destruct (find_def (h_defs s) c) as [d|] eqn:E; [| reflexivity].
      destruct (do_load_spec s d doc HI (find_def_self _ _ _ E)) as [E1 _]. rewrite E1. apply pure_load_erase.
    - destruct (find_def (h_defs s) c) as [d|] eqn:E; [| reflexivity].
      destruct (do_dump_spec s d inst HI (find_def_self _ _ _ E)) as [E1 _]. rewrite E1. reflexivity.
  Qed.

  (* TRANSPARENCY for ALL histories, up to the type a ParseError names *)
  Theorem hist_transparent_erased h o :
    erase_ty (snd (step' (run' hinit h) o)) = erase_ty (snd (step' (run' hinit (hdefs_all h)) o)).
  Proof.
    rewrite !hstep_out_erased by (apply hrun_inv; apply HInv_init).
    rewrite (hrun_defs_all h hinit hinit eq_refl). reflexivity.
  Qed.

  Theorem hist_pure_erased h o :
    erase_ty (snd (step' (run' hinit h) o)) = erase_ty (pure_hop' (h_defs (run' hinit h)) o).
  Proof. apply hstep_out_erased. apply hrun_inv. apply HInv_init. Qed.
End MachineProofs.

(* ---------------------------------------------------------------- the library's policy: own copy of the pattern per parser *)
Section LibraryProofs.
  Variable conv0 : bool -> pstr -> xv -> cres.
  Variable dumpv : bool -> xv -> cres.
  Variable iso : dkind -> pstr -> option xv.
  Variable fromts : dkind -> pstr -> cres.
  Variable strp : nat -> dkind -> pstr -> option xv.
  Variable mk : dkind * xv -> dkind * xv -> bool.
  Hypothesis Hfac : factors (am iso fromts) mk am_cacheable.

  Notation step' := (hstep false conv0 dumpv iso fromts strp mk).
  Notation run' := (hrun false conv0 dumpv iso fromts strp mk).
  Notation pure_hop' := (pure_hop false conv0 dumpv iso fromts strp mk).

  (* in an invariant state every operation answers as the cache-free reference: nothing of the state is observable *)
  Lemma hstep_out_lib s o : HInv iso fromts mk s -> snd (step' s o) = pure_hop' (h_defs s) o.
  Proof.
    intro HI. destruct o as [d | c doc | c inst]; cbn [hstep pure_hop].
    - destruct (find_def (h_defs s) (xc_id d)); reflexivity.
    - destruct (find_def (h_defs s) c) as [d|] eqn:E; [| reflexivity].
      destruct (do_load_spec false conv0 iso fromts strp mk Hfac s d doc HI (find_def_self _ _ _ E)) as [E1 _].
      rewrite E1. reflexivity.
    - destruct (find_def (h_defs s) c) as [d|] eqn:E; [| reflexivity].
      destruct (do_dump_spec dumpv iso fromts mk s d inst HI (find_def_self _ _ _ E)) as [E1 _]. exact E1.
  Qed.

  (* FULL TRANSPARENCY for ALL histories: no side condition, the type an error names included *)
  Theorem hist_transparent_full h o :
    snd (step' (run' hinit h) o) = snd (step' (run' hinit (hdefs_all h)) o).
  Proof.
    rewrite !hstep_out_lib by (apply (hrun_inv false conv0 dumpv iso fromts strp mk Hfac); apply HInv_init).
    rewrite (hrun_defs_all false conv0 dumpv iso fromts strp mk h hinit hinit eq_refl). reflexivity.
  Qed.

  Theorem hist_pure_full h o :
    snd (step' (run' hinit h) o) = pure_hop' (h_defs (run' hinit h)) o.
  Proof. apply hstep_out_lib. apply (hrun_inv false conv0 dumpv iso fromts strp mk Hfac). apply HInv_init. Qed.
End LibraryProofs.
