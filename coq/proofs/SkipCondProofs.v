(* SkipCondProofs.v — the condition compiler agrees with Condition.evaluate on the
   safe region (C11, part 1).  Lemmas only; statements are in props/C11.v. *)
From DW Require Import PyStr SkipModel.

Lemma pstr_eqb_f : pstr_eqb (S "f") (S "f") = true.
Proof. reflexivity. Qed.
From Coq Require Import ZArith Lia.

(* ------------------------------------------------ induction principle for values *)
Section ValueInd.
  Variable P : value -> Prop.
  Hypothesis HNone : P VNone.
  Hypothesis HEll : P VEllipsis.
  Hypothesis HBool : forall b, P (VBool b).
  Hypothesis HInt : forall z, P (VInt z).
  Hypothesis HFloat : forall f, P (VFloat f).
  Hypothesis HStr : forall s, P (VStr s).
  Hypothesis HTuple : forall l, Forall P l -> P (VTuple l).
  Hypothesis HList : forall l, Forall P l -> P (VList l).
  Hypothesis HDict : forall l, Forall (fun kv => P (fst kv) /\ P (snd kv)) l -> P (VDict l).
  Hypothesis HTok : forall k i, P (VTok k i).

  Fixpoint value_ind' (v : value) : P v :=
    match v with
    | VNone => HNone
    | VEllipsis => HEll
    | VBool b => HBool b
    | VInt z => HInt z
    | VFloat f => HFloat f
    | VStr s => HStr s
    | VTuple l => HTuple l ((fix go (l : list value) : Forall P l :=
                               match l with
                               | [] => Forall_nil P
                               | x :: r => Forall_cons x (value_ind' x) (go r)
                               end) l)
    | VList l => HList l ((fix go (l : list value) : Forall P l :=
                             match l with
                             | [] => Forall_nil P
                             | x :: r => Forall_cons x (value_ind' x) (go r)
                             end) l)
    | VDict l => HDict l ((fix go (l : list (value * value)) : Forall (fun kv => P (fst kv) /\ P (snd kv)) l :=
                             match l with
                             | [] => Forall_nil _
                             | (k, x) :: r => Forall_cons (k, x) (conj (value_ind' k) (value_ind' x)) (go r)
                             end) l)
    | VTok k i => HTok k i
    end.
End ValueInd.

(* ------------------------------------------------ folding the nested fixpoints *)
Fixpoint eval_list (en : env) (es : list expr) : res (list value) :=
  match es with
  | [] => Ok []
  | a :: r => match eval en a with
              | Ok x => match eval_list en r with Ok xs => Ok (val x :: xs) | Err er => Err er end
              | Err er => Err er
              end
  end.

Lemma eval_tuple : forall en es,
  eval en (ETupleD es) = match eval_list en es with Ok xs => Ok (fresh (VTuple xs)) | Err er => Err er end.
Proof.
  intros en es. cbn [eval].
  assert (H : (fix go (es : list expr) : res (list value) :=
               match es with
               | [] => Ok []
               | a :: r => match eval en a with
                           | Ok x => match go r with Ok xs => Ok (val x :: xs) | Err er => Err er end
                           | Err er => Err er
                           end
               end) es = eval_list en es).
  { induction es as [|a r IH]; [reflexivity|]. cbn [eval_list]. rewrite <- IH. reflexivity. }
  rewrite H. reflexivity.
Qed.

Lemma repr_expr_tuple : forall l, repr_expr (VTuple l) = ETupleD (map repr_expr l).
Proof.
  intros l. reflexivity.
Qed.

Lemma repr_ok_tuple : forall l, repr_ok (VTuple l) = forallb repr_ok l.
Proof.
  intros l. cbn [repr_ok].
  induction l as [|x r IH]; [reflexivity|]. cbn [forallb]. rewrite <- IH. reflexivity.
Qed.

Lemma expr_bad_tuple : forall es, expr_bad (ETupleD es) = existsb expr_bad es.
Proof.
  intros es. cbn [expr_bad].
  induction es as [|x r IH]; [reflexivity|]. cbn [existsb]. rewrite <- IH. reflexivity.
Qed.

(* ------------------------------------------------ repr round trip *)
Lemma fneg_pos : forall m e, (m < 0)%Z -> fneg (FFin (- m) e) = FFin m e.
Proof.
  intros m e Hm. unfold fneg.
  destruct (Z.eqb_spec (- m) 0) as [H0|H0]; [lia|].
  rewrite Z.opp_involutive. reflexivity.
Qed.

(* For a value whose repr is a literal/display of literals, evaluating the
   inlined text yields a (new) object with exactly that value, in any environment. *)
Lemma repr_roundtrip : forall v, repr_ok v = true -> forall en, eval en (repr_expr v) = Ok (fresh v).
Proof.
  induction v using value_ind'; intros Hok en; try discriminate Hok; try reflexivity.
  - (* int *)
    cbn [repr_expr]. destruct (Z.ltb_spec z 0) as [Hz|Hz]; [|reflexivity].
    cbn [eval py_neg val fresh]. rewrite Z.opp_involutive. reflexivity.
  - (* float *)
    destruct f as [| n | | m e]; try discriminate Hok; try reflexivity.
    cbn [repr_expr]. destruct (Z.ltb_spec m 0) as [Hm|Hm]; [|reflexivity].
    cbn [eval py_neg val fresh]. rewrite fneg_pos by assumption. reflexivity.
  - (* tuple *)
    rewrite repr_expr_tuple, eval_tuple. rewrite repr_ok_tuple in Hok.
    assert (Hl : eval_list en (map repr_expr l) = Ok l).
    { induction l as [|x r IHl]; [reflexivity|].
      cbn [forallb] in Hok. apply andb_true_iff in Hok. destruct Hok as [Hx Hr].
      inversion H as [|? ? Px Pr]; subst.
      cbn [map eval_list]. rewrite (Px Hx en). cbn [val fresh].
      rewrite (IHl Pr Hr). reflexivity. }
    rewrite Hl. reflexivity.
Qed.

Lemma repr_not_bad : forall v, repr_ok v = true -> expr_bad (repr_expr v) = false.
Proof.
  induction v using value_ind'; intros Hok; try discriminate Hok; try reflexivity.
  - cbn [repr_expr]. destruct (z <? 0)%Z; reflexivity.
  - destruct f as [| n | | m e]; try discriminate Hok; try reflexivity.
    cbn [repr_expr]. destruct (m <? 0)%Z; reflexivity.
  - rewrite repr_expr_tuple, expr_bad_tuple. rewrite repr_ok_tuple in Hok.
    induction l as [|x r IHl]; [reflexivity|].
    cbn [forallb] in Hok. apply andb_true_iff in Hok. destruct Hok as [Hx Hr].
    inversion H as [|? ? Px Pr]; subst.
    cbn [map existsb]. rewrite (Px Hx). cbn [orb]. exact (IHl Pr Hr).
Qed.

(* ------------------------------------------------ comparison ignores object ids,
   except `is` between two non-singletons *)
Lemma apply_cop_fresh : forall op a b,
  negb (is_identity_op op) || is_singleton (val b) = true ->
  apply_cop op a (fresh (val b)) = apply_cop op a b.
Proof.
  intros op a b H.
  destruct op; try reflexivity; cbn [is_identity_op negb orb] in H;
    unfold apply_cop, py_is; cbn [val fresh]; rewrite H, orb_true_r; reflexivity.
Qed.

(* ------------------------------------------------ the compiled test *)
Definition clo_has (clo : list (name * lval)) (c : cond) (var : name) : Prop :=
  t_or_f (c_op c) = false -> inlined (c_op c) (val (c_val c)) = false ->
  lookup_name clo var = Some (c_val c).

(* In any environment where o.f is v and the closure entry (if one was requested)
   is present, the compiled test has the truth value Condition.evaluate gives. *)
Lemma compile_cond_correct : forall c var f v obj clo fr,
  cond_safe c = true ->
  lookup_str obj f = Some v ->
  clo_has clo c var ->
  eval_test (Env obj clo fr) (fst (compile_cond c var f)) = evaluate c v.
Proof.
  intros [op cv] var f v obj clo fr Hsafe Hobj Hclo.
  unfold cond_safe in Hsafe. unfold clo_has in Hclo. cbn [c_op c_val] in *.
  unfold compile_cond, get_skip_if_condition, finalize_skip_if, evaluate, eval_test. cbn [c_op c_val fst].
  destruct (t_or_f op) eqn:Htf.
  - destruct op; try discriminate Htf; cbn [eval e_obj]; rewrite Hobj; cbn [apply_cop val fresh truthy];
      reflexivity.
  - cbn [orb] in Hsafe.
    destruct (inlined op (val cv)) eqn:Hb; cbn [negb orb fst] in *.
    + apply andb_true_iff in Hsafe. destruct Hsafe as [Hr Hid].
      cbn [eval e_obj]. rewrite Hobj. rewrite (repr_roundtrip _ Hr).
      rewrite (apply_cop_fresh op v cv Hid).
      destruct (apply_cop op v cv) as [[|]|]; reflexivity.
    + cbn [eval e_obj e_clo]. rewrite Hobj. rewrite (Hclo eq_refl eq_refl).
      destruct (apply_cop op v cv) as [[|]|]; reflexivity.
Qed.

Lemma compile_cond_not_bad : forall c var f,
  cond_safe c = true -> expr_bad (fst (compile_cond c var f)) = false.
Proof.
  intros [op cv] var f Hsafe. unfold cond_safe in Hsafe. cbn [c_op c_val] in *.
  unfold compile_cond, get_skip_if_condition, finalize_skip_if. cbn [c_op c_val fst].
  destruct (t_or_f op) eqn:Htf.
  - destruct op; try discriminate Htf; reflexivity.
  - cbn [orb] in Hsafe. destruct (inlined op (val cv)) eqn:Hb; cbn [negb orb fst] in *.
    + apply andb_true_iff in Hsafe. destruct Hsafe as [Hr _].
      cbn [expr_bad]. exact (repr_not_bad _ Hr).
    + reflexivity.
Qed.

(* Stand-alone form: the semantics of the generated text (compile, then evaluate
   in the environment the generator builds) is Condition.evaluate. *)
Lemma compiled_sem_correct : forall c v, cond_safe c = true -> compiled_sem c v = evaluate c v.
Proof.
  intros c v Hsafe. unfold compiled_sem.
  rewrite (compile_cond_not_bad c NSkipValue (S "f") Hsafe).
  apply compile_cond_correct; [assumption|reflexivity|].
  intros Htf Hb. unfold compile_cond, get_skip_if_condition. cbn [snd].
  rewrite Htf, Hb. cbn [snd lookup_name name_eqb]. reflexivity.
Qed.

(* What is inlined has a repr that denotes it, and is never tested for identity
   unless it is a singleton (the F20 repair). *)
Lemma inlined_denoted : forall op v,
  inlined op v = true -> repr_ok v = true /\ negb (is_identity_op op) || is_singleton v = true.
Proof.
  intros op v H. unfold inlined in H. apply andb_true_iff in H. destruct H as [Hb H].
  apply orb_true_iff in H. destruct H as [H|H].
  - destruct v; try discriminate H; split; try reflexivity; apply orb_true_r.
  - apply andb_true_iff in H. destruct H as [Hid Hp]. rewrite Hid. split; [|reflexivity].
    destruct v as [| | | |f| | | | |]; try discriminate Hp; try reflexivity.
    destruct f; try reflexivity; discriminate Hb.
Qed.

(* Every condition is in the safe region. *)
Lemma cond_safe_all : forall c, cond_safe c = true.
Proof.
  intros [op cv]. unfold cond_safe. cbn [c_op c_val].
  destruct (t_or_f op); [reflexivity|]. cbn [orb].
  destruct (inlined op (val cv)) eqn:Hi; [|reflexivity]. cbn [negb orb].
  destruct (inlined_denoted op (val cv) Hi) as [Hr Hs]. rewrite Hr, Hs. reflexivity.
Qed.

(* Unhashable values, non-finite floats (the F6 region), opaque objects, tuples, and any
   non-singleton under `is` / `is not` (the F20 region) go through a closure variable. *)
Lemma hashable_false_not_builtin : forall v, hashable v = false -> is_builtin v = false.
Proof.
  intros v H. destruct v; try discriminate H; unfold is_builtin; rewrite H; reflexivity.
Qed.

Lemma nonfinite_not_builtin : forall v, nonfinite v = true -> is_builtin v = false.
Proof.
  intros v H. destruct v as [| | | |f| | | | |]; try discriminate H.
  destruct f; try discriminate H; reflexivity.
Qed.

Lemma closure_region : forall op v,
  hashable v = false \/ nonfinite v = true \/
  (exists k i, v = VTok k i) \/ (exists l, v = VTuple l) \/
  (is_identity_op op = true /\ builtin_singleton v = false) ->
  inlined op v = false.
Proof.
  intros op v [H|[H|[[k [i ->]]|[[l ->]|[Hid Hs]]]]]; unfold inlined.
  - rewrite (hashable_false_not_builtin _ H). reflexivity.
  - rewrite (nonfinite_not_builtin _ H). reflexivity.
  - cbn [builtin_singleton plain_scalar orb]. rewrite andb_false_r. apply andb_false_r.
  - cbn [builtin_singleton plain_scalar orb]. rewrite andb_false_r. apply andb_false_r.
  - rewrite Hs, Hid. cbn. apply andb_false_r.
Qed.


(* ------------------------------------------------ the compiled test in any environment *)
Fixpoint eval_dict (en : env) (kvs : list (expr * expr)) : res (list (value * value)) :=
  match kvs with
  | [] => Ok []
  | (k, a) :: r =>
      match eval en k with
      | Ok kx => match eval en a with
                 | Ok x => match eval_dict en r with Ok xs => Ok ((val kx, val x) :: xs) | Err er => Err er end
                 | Err er => Err er
                 end
      | Err er => Err er
      end
  end.

Lemma eval_listd : forall en es,
  eval en (EListD es) = match eval_list en es with Ok xs => Ok (fresh (VList xs)) | Err er => Err er end.
Proof.
  intros en es. cbn [eval].
  assert (H : (fix go (es : list expr) : res (list value) :=
               match es with
               | [] => Ok []
               | a :: r => match eval en a with
                           | Ok x => match go r with Ok xs => Ok (val x :: xs) | Err er => Err er end
                           | Err er => Err er
                           end
               end) es = eval_list en es).
  { induction es as [|a r IH]; [reflexivity|]. cbn [eval_list]. rewrite <- IH. reflexivity. }
  rewrite H. reflexivity.
Qed.

Lemma eval_dictd : forall en kvs,
  eval en (EDictD kvs) = match eval_dict en kvs with Ok xs => Ok (fresh (VDict xs)) | Err er => Err er end.
Proof.
  intros en kvs. cbn [eval].
  assert (H : (fix go (kvs : list (expr * expr)) : res (list (value * value)) :=
               match kvs with
               | [] => Ok []
               | (k, a) :: r =>
                   match eval en k with
                   | Ok kx => match eval en a with
                              | Ok x => match go r with Ok xs => Ok ((val kx, val x) :: xs) | Err er => Err er end
                              | Err er => Err er
                              end
                   | Err er => Err er
                   end
               end) kvs = eval_dict en kvs).
  { induction kvs as [|[k a] r IH]; [reflexivity|]. cbn [eval_dict]. rewrite <- IH. reflexivity. }
  rewrite H. reflexivity.
Qed.

Lemma repr_expr_list : forall l, repr_expr (VList l) = EListD (map repr_expr l).
Proof. intros l. reflexivity. Qed.

Lemma repr_expr_dict : forall l,
  repr_expr (VDict l) = EDictD (map (fun kv => (repr_expr (fst kv), repr_expr (snd kv))) l).
Proof.
  intros l. cbn [repr_expr]. f_equal.
  induction l as [|[k x] r IH]; [reflexivity|]. cbn [map fst snd]. rewrite <- IH. reflexivity.
Qed.

(* the inlined text mentions no variable of the generated function: its value
   (or error) is the same in every environment *)
Lemma repr_env_indep : forall v en en', eval en (repr_expr v) = eval en' (repr_expr v).
Proof.
  induction v using value_ind'; intros en en'; try reflexivity.
  - cbn [repr_expr]. destruct (z <? 0)%Z; reflexivity.
  - destruct f as [| [|] | | m e]; try reflexivity.
    cbn [repr_expr]. destruct (m <? 0)%Z; reflexivity.
  - rewrite repr_expr_tuple, !eval_tuple.
    assert (Hl : eval_list en (map repr_expr l) = eval_list en' (map repr_expr l)).
    { induction H as [|x r Px _ IH]; [reflexivity|].
      cbn [map eval_list]. rewrite (Px en en'), IH. reflexivity. }
    rewrite Hl. reflexivity.
  - rewrite repr_expr_list, !eval_listd.
    assert (Hl : eval_list en (map repr_expr l) = eval_list en' (map repr_expr l)).
    { induction H as [|x r Px _ IH]; [reflexivity|].
      cbn [map eval_list]. rewrite (Px en en'), IH. reflexivity. }
    rewrite Hl. reflexivity.
  - rewrite repr_expr_dict, !eval_dictd.
    assert (Hl : eval_dict en (map (fun kv => (repr_expr (fst kv), repr_expr (snd kv))) l) =
                 eval_dict en' (map (fun kv => (repr_expr (fst kv), repr_expr (snd kv))) l)).
    { induction H as [|[k x] r [Pk Px] _ IH]; [reflexivity|].
      cbn [map eval_dict fst snd] in *. rewrite (Pk en en'), (Px en en'), IH. reflexivity. }
    rewrite Hl. reflexivity.
Qed.

(* the meaning of the generated text (text_sem) is the same for every attribute name, closure variable name,
   frame and surrounding closure (no safety assumption) *)
Lemma compile_cond_text_sem : forall c var f v obj clo fr,
  lookup_str obj f = Some v -> clo_has clo c var ->
  eval_test (Env obj clo fr) (fst (compile_cond c var f)) = text_sem c v.
Proof.
  intros [op cv] var f v obj clo fr Hobj Hclo.
  unfold clo_has in Hclo. cbn [c_op c_val] in *.
  unfold text_sem, compile_cond, get_skip_if_condition, finalize_skip_if, eval_test. cbn [c_op c_val fst snd].
  destruct (t_or_f op) eqn:Htf.
  - destruct op; try discriminate Htf; cbn [eval e_obj lookup_str fst snd]; rewrite Hobj;
      rewrite pstr_eqb_f; reflexivity.
  - destruct (inlined op (val cv)) eqn:Hb; cbn [fst snd].
    + cbn [eval e_obj lookup_str]. rewrite Hobj, pstr_eqb_f.
      rewrite (repr_env_indep (val cv) (Env obj clo fr) (Env [(S "f", v)] [] [])). reflexivity.
    + cbn [eval e_obj e_clo lookup_str lookup_name name_eqb]. rewrite Hobj, pstr_eqb_f.
      rewrite (Hclo eq_refl eq_refl). reflexivity.
Qed.

Lemma compiled_sem_text : forall c v,
  compiled_sem c v = if expr_bad (fst (compile_cond c NSkipValue (S "f"))) then Err SyntaxError else text_sem c v.
Proof. intros. reflexivity. Qed.

Lemma text_sem_correct : forall c v, cond_safe c = true -> text_sem c v = evaluate c v.
Proof.
  intros c v Hs. pose proof (compiled_sem_correct c v Hs) as H.
  rewrite compiled_sem_text, (compile_cond_not_bad c NSkipValue (S "f") Hs) in H. exact H.
Qed.

(* unconditional forms *)
Lemma compiled_sem_evaluate : forall c v, compiled_sem c v = evaluate c v.
Proof. intros c v. apply compiled_sem_correct. apply cond_safe_all. Qed.

Lemma text_sem_evaluate : forall c v, text_sem c v = evaluate c v.
Proof. intros c v. apply text_sem_correct. apply cond_safe_all. Qed.
