(* SkipCondProofs.v — the condition compiler agrees with Condition.evaluate on the
   safe region (C11, part 1).  Lemmas only; statements are in props/C11.v. *)
From DW Require Import PyStr SkipModel.
From Coq Require Import ZArith Lia.

(* ------------------------------------------------ induction principle for values *)
Section ValueInd.
  Variable P : value -> Prop.
  Hypothesis HNone : P VNone.
  Hypothesis HEll : P VEllipsis.
  Hypothesis HBool : forall b, P (VBool b).
  Hypothesis HInt : forall z, P (VInt z).
  Hypothesis HFloat : forall f, P (VFloat f).
  Hypothesis HStr : forall s, P (VStr s).
  Hypothesis HTuple : forall l, Forall P l -> P (VTuple l).
  Hypothesis HList : forall l, Forall P l -> P (VList l).
  Hypothesis HDict : forall l, Forall (fun kv => P (fst kv) /\ P (snd kv)) l -> P (VDict l).
  Hypothesis HTok : forall k i, P (VTok k i).

  Fixpoint value_ind' (v : value) : P v :=
    match v with
    | VNone => HNone
    | VEllipsis => HEll
    | VBool b => HBool b
    | VInt z => HInt z
    | VFloat f => HFloat f
    | VStr s => HStr s
    | VTuple l => HTuple l ((fix go (l : list value) : Forall P l :=
                               match l with
                               | [] => Forall_nil P
                               | x :: r => Forall_cons x (value_ind' x) (go r)
                               end) l)
    | VList l => HList l ((fix go (l : list value) : Forall P l :=
                             match l with
                             | [] => Forall_nil P
                             | x :: r => Forall_cons x (value_ind' x) (go r)
                             end) l)
    | VDict l => HDict l ((fix go (l : list (value * value)) : Forall (fun kv => P (fst kv) /\ P (snd kv)) l :=
                             match l with
                             | [] => Forall_nil _
                             | (k, x) :: r => Forall_cons (k, x) (conj (value_ind' k) (value_ind' x)) (go r)
                             end) l)
    | VTok k i => HTok k i
    end.
End ValueInd.

(* ------------------------------------------------ folding the nested fixpoints *)
Fixpoint eval_list (en : env) (es : list expr) : res (list value) :=
  match es with
  | [] => Ok []
  | a :: r => match eval en a with
              | Ok x => match eval_list en r with Ok xs => Ok (val x :: xs) | Err er => Err er end
              | Err er => Err er
              end
  end.

Lemma eval_tuple : forall en es,
  eval en (ETupleD es) = match eval_list en es with Ok xs => Ok (fresh (VTuple xs)) | Err er => Err er end.
Proof.
  intros en es. cbn [eval].
  assert (H : (fix go (es : list expr) : res (list value) :=
               match es with
               | [] => Ok []
               | a :: r => match eval en a with
                           | Ok x => match go r with Ok xs => Ok (val x :: xs) | Err er => Err er end
                           | Err er => Err er
                           end
               end) es = eval_list en es).
  { induction es as [|a r IH]; [reflexivity|]. cbn [eval_list]. rewrite <- IH. reflexivity. }
  rewrite H. reflexivity.
Qed.

Lemma repr_expr_tuple : forall l, repr_expr (VTuple l) = ETupleD (map repr_expr l).
Proof.
  intros l. reflexivity.
Qed.

Lemma repr_ok_tuple : forall l, repr_ok (VTuple l) = forallb repr_ok l.
Proof.
  intros l. cbn [repr_ok].
  induction l as [|x r IH]; [reflexivity|]. cbn [forallb]. rewrite <- IH. reflexivity.
Qed.

Lemma expr_bad_tuple : forall es, expr_bad (ETupleD es) = existsb expr_bad es.
Proof.
  intros es. cbn [expr_bad].
  induction es as [|x r IH]; [reflexivity|]. cbn [existsb]. rewrite <- IH. reflexivity.
Qed.

(* ------------------------------------------------ repr round trip *)
Lemma fneg_pos : forall m e, (m < 0)%Z -> fneg (FFin (- m) e) = FFin m e.
Proof.
  intros m e Hm. unfold fneg.
  destruct (Z.eqb_spec (- m) 0) as [H0|H0]; [lia|].
  rewrite Z.opp_involutive. reflexivity.
Qed.

(* For a value whose repr is a literal/display of literals, evaluating the
   inlined text yields a (new) object with exactly that value, in any environment. *)
Lemma repr_roundtrip : forall v, repr_ok v = true -> forall en, eval en (repr_expr v) = Ok (fresh v).
Proof.
  induction v using value_ind'; intros Hok en; try discriminate Hok; try reflexivity.
  - (* int *)
    cbn [repr_expr]. destruct (Z.ltb_spec z 0) as [Hz|Hz]; [|reflexivity].
    cbn [eval py_neg val fresh]. rewrite Z.opp_involutive. reflexivity.
  - (* float *)
    destruct f as [| n | | m e]; try discriminate Hok; try reflexivity.
    cbn [repr_expr]. destruct (Z.ltb_spec m 0) as [Hm|Hm]; [|reflexivity].
    cbn [eval py_neg val fresh]. rewrite fneg_pos by assumption. reflexivity.
  - (* tuple *)
    rewrite repr_expr_tuple, eval_tuple. rewrite repr_ok_tuple in Hok.
    assert (Hl : eval_list en (map repr_expr l) = Ok l).
    { induction l as [|x r IHl]; [reflexivity|].
      cbn [forallb] in Hok. apply andb_true_iff in Hok. destruct Hok as [Hx Hr].
      inversion H as [|? ? Px Pr]; subst.
      cbn [map eval_list]. rewrite (Px Hx en). cbn [val fresh].
      rewrite (IHl Pr Hr). reflexivity. }
    rewrite Hl. reflexivity.
Qed.

Lemma repr_not_bad : forall v, repr_ok v = true -> expr_bad (repr_expr v) = false.
Proof.
  induction v using value_ind'; intros Hok; try discriminate Hok; try reflexivity.
  - cbn [repr_expr]. destruct (z <? 0)%Z; reflexivity.
  - destruct f as [| n | | m e]; try discriminate Hok; try reflexivity.
    cbn [repr_expr]. destruct (m <? 0)%Z; reflexivity.
  - rewrite repr_expr_tuple, expr_bad_tuple. rewrite repr_ok_tuple in Hok.
    induction l as [|x r IHl]; [reflexivity|].
    cbn [forallb] in Hok. apply andb_true_iff in Hok. destruct Hok as [Hx Hr].
    inversion H as [|? ? Px Pr]; subst.
    cbn [map existsb]. rewrite (Px Hx). cbn [orb]. exact (IHl Pr Hr).
Qed.

(* ------------------------------------------------ comparison ignores object ids,
   except `is` between two non-singletons *)
Lemma apply_cop_fresh : forall op a b,
  negb (is_identity_op op) || is_singleton (val b) = true ->
  apply_cop op a (fresh (val b)) = apply_cop op a b.
Proof.
  intros op a b H.
  destruct op; try reflexivity; cbn [is_identity_op negb orb] in H;
    unfold apply_cop, py_is; cbn [val fresh]; rewrite H, orb_true_r; reflexivity.
Qed.

(* ------------------------------------------------ the compiled test *)
Definition clo_has (clo : list (name * lval)) (c : cond) (var : name) : Prop :=
  t_or_f (c_op c) = false -> is_builtin (val (c_val c)) = false ->
  lookup_name clo var = Some (c_val c).

(* In any environment where o.f is v and the closure entry (if one was requested)
   is present, the compiled test has the truth value Condition.evaluate gives. *)
Lemma compile_cond_correct : forall c var f v obj clo fr,
  cond_safe c = true ->
  lookup_str obj f = Some v ->
  clo_has clo c var ->
  eval_test (Env obj clo fr) (fst (compile_cond c var f)) = evaluate c v.
Proof.
  intros [op cv] var f v obj clo fr Hsafe Hobj Hclo.
  unfold cond_safe in Hsafe. unfold clo_has in Hclo. cbn [c_op c_val] in *.
  unfold compile_cond, get_skip_if_condition, finalize_skip_if, evaluate, eval_test. cbn [c_op c_val fst].
  destruct (t_or_f op) eqn:Htf.
  - destruct op; try discriminate Htf; cbn [eval e_obj]; rewrite Hobj; cbn [apply_cop val fresh truthy];
      reflexivity.
  - cbn [orb] in Hsafe.
    destruct (is_builtin (val cv)) eqn:Hb; cbn [negb orb fst] in *.
    + apply andb_true_iff in Hsafe. destruct Hsafe as [Hr Hid].
      cbn [eval e_obj]. rewrite Hobj. rewrite (repr_roundtrip _ Hr).
      rewrite (apply_cop_fresh op v cv Hid).
      destruct (apply_cop op v cv) as [[|]|]; reflexivity.
    + cbn [eval e_obj e_clo]. rewrite Hobj. rewrite (Hclo eq_refl eq_refl).
      destruct (apply_cop op v cv) as [[|]|]; reflexivity.
Qed.

Lemma compile_cond_not_bad : forall c var f,
  cond_safe c = true -> expr_bad (fst (compile_cond c var f)) = false.
Proof.
  intros [op cv] var f Hsafe. unfold cond_safe in Hsafe. cbn [c_op c_val] in *.
  unfold compile_cond, get_skip_if_condition, finalize_skip_if. cbn [c_op c_val fst].
  destruct (t_or_f op) eqn:Htf.
  - destruct op; try discriminate Htf; reflexivity.
  - cbn [orb] in Hsafe. destruct (is_builtin (val cv)) eqn:Hb; cbn [negb orb fst] in *.
    + apply andb_true_iff in Hsafe. destruct Hsafe as [Hr _].
      cbn [expr_bad]. exact (repr_not_bad _ Hr).
    + reflexivity.
Qed.

(* Stand-alone form: the semantics of the generated text (compile, then evaluate
   in the environment the generator builds) is Condition.evaluate. *)
Lemma compiled_sem_correct : forall c v, cond_safe c = true -> compiled_sem c v = evaluate c v.
Proof.
  intros c v Hsafe. unfold compiled_sem.
  rewrite (compile_cond_not_bad c NSkipValue (S "f") Hsafe).
  apply compile_cond_correct; [assumption|reflexivity|].
  intros Htf Hb. unfold compile_cond, get_skip_if_condition. cbn [snd].
  rewrite Htf, Hb. cbn [snd lookup_name name_eqb]. reflexivity.
Qed.

(* The F6 region (unhashable values, non-finite floats) is inside the safe region. *)
Lemma hashable_false_not_builtin : forall v, hashable v = false -> is_builtin v = false.
Proof.
  intros v H. destruct v; try discriminate H; unfold is_builtin; rewrite H; reflexivity.
Qed.

Lemma nonfinite_not_builtin : forall v, nonfinite v = true -> is_builtin v = false.
Proof.
  intros v H. destruct v as [| | | |f| | | | |]; try discriminate H.
  destruct f; try discriminate H; reflexivity.
Qed.

Lemma f6_region_safe : forall op cv,
  hashable (val cv) = false \/ nonfinite (val cv) = true -> cond_safe (Cond op cv) = true.
Proof.
  intros op cv [H|H]; unfold cond_safe; cbn [c_op c_val].
  - rewrite (hashable_false_not_builtin _ H). cbn [negb]. rewrite orb_true_r. reflexivity.
  - rewrite (nonfinite_not_builtin _ H). cbn [negb]. rewrite orb_true_r. reflexivity.
Qed.

(* Enum members and instances of user classes are bound through the closure too. *)
Lemma user_token_safe : forall op o k i,
  (k = KEnum \/ k = KUser) -> cond_safe (Cond op (LV o (VTok k i))) = true.
Proof.
  intros op o k i [-> | ->]; unfold cond_safe; cbn; rewrite orb_true_r; reflexivity.
Qed.
