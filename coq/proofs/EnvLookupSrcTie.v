(* EnvLookupSrcTie.v — tie T for an algorithm: the Gallina functions that
   harness/tables/EnvLookupAlg.py TRANSLATES from the current source text of
   environ/lookups.py (gen/T_EnvLookupAlg.v, regenerated on every run) equal the hand-written
   model EnvModel.v for every state and key.  An edit that reorders the attempts, changes a
   candidate spelling or the cleaning function breaks one of these lemmas. *)
From DW Require Import PyStr StrConv EnvModel T_EnvLookupAlg.
From Coq Require Import List.
Import ListNotations.

Lemma clean_src_eq : forall s, clean_src s = clean s.
Proof. reflexivity. Qed.

Lemma try_cleaned_src_eq : forall st key, try_cleaned_src st key = try_cleaned st key.
Proof. reflexivity. Qed.

Lemma with_screaming_snake_case_src_eq :
  forall st key, with_screaming_snake_case_src st key = with_screaming_snake_case st key.
Proof. reflexivity. Qed.

Lemma with_snake_case_src_eq : forall st key, with_snake_case_src st key = with_snake_case st key.
Proof. reflexivity. Qed.

Lemma with_pascal_or_camel_case_src_eq :
  forall st key, with_pascal_or_camel_case_src st key = with_pascal_or_camel_case st key.
Proof. reflexivity. Qed.

Lemma lookup_exact_str_src_eq : forall st v, lookup_exact_str_src st v = lookup_exact_str st v.
Proof. reflexivity. Qed.

Lemma lookup_exact_seq_src_eq : forall st vars, lookup_exact_seq_src st vars = lookup_exact_seq st vars.
Proof.
  intros st vars; induction vars as [|v r IH]; cbn [lookup_exact_seq_src lookup_exact_seq]; [reflexivity|].
  rewrite IH; reflexivity.
Qed.
