(* PatStdProofs.v — the fixed-width slice of strptime / fromisoformat (PatStd.v):
   parsing inverts formatting, and a pattern that is a PERMUTATION of the ISO field order parses
   the ISO rendering of a value as the permuted value (the ISO-ambiguous region of C17). *)
From DW Require Import PyStr CharFacts PatModel PatProofs PatAmbigProofs PatStd.
From Coq Require Import Lia ZifyBool.

Local Open Scope Z_scope.

Lemma fld_eqb_eq a b : fld_eqb a b = true <-> a = b.
Proof. destruct a, b; cbn; split; intro H; try discriminate; auto. Qed.
Lemma fld_eqb_refl a : fld_eqb a a = true.
Proof. now apply fld_eqb_eq. Qed.
Lemma fld_eqb_neq a b : fld_eqb a b = false <-> a <> b.
Proof.
  split.
  - intros H E. apply fld_eqb_eq in E. congruence.
  - intro H. destruct (fld_eqb a b) eqn:E; auto. apply fld_eqb_eq in E. contradiction.
Qed.

Lemma existsb_fld f l : existsb (fld_eqb f) l = true <-> In f l.
Proof.
  rewrite existsb_exists. split.
  - intros (x & Hx & E). apply fld_eqb_eq in E. now subst.
  - intro H. exists f. split; auto. apply fld_eqb_refl.
Qed.

(* ---- digits ------------------------------------------------------------------------------------------ *)
Lemma digit_cases d : 0 <= d < 10 -> d = 0 \/ d = 1 \/ d = 2 \/ d = 3 \/ d = 4 \/ d = 5 \/ d = 6 \/ d = 7 \/ d = 8 \/ d = 9.
Proof. lia. Qed.

Lemma digit_val_digit d : 0 <= d < 10 -> digit_val (digit d) = Some d.
Proof. intro H. destruct (digit_cases d H) as [->|[->|[->|[->|[->|[->|[->|[->|[->| ->]]]]]]]]]; reflexivity. Qed.

Lemma digit_not c d : 0 <= d < 10 -> is_digit c = false -> ascii_eqb c (digit d) = false.
Proof.
  intros H Hc. destruct (ascii_eqb c (digit d)) eqn:E; auto. apply ascii_eqb_eq in E. subst.
  destruct (digit_cases d H) as [->|[->|[->|[->|[->|[->|[->|[->|[->| ->]]]]]]]]]; discriminate.
Qed.

Lemma split_digit w n :
  0 <= n < 10 ^ Z.of_nat (Datatypes.S w) ->
  0 <= n / 10 ^ Z.of_nat w < 10 /\ 0 <= n mod 10 ^ Z.of_nat w < 10 ^ Z.of_nat w /\
  n = 10 ^ Z.of_nat w * (n / 10 ^ Z.of_nat w) + n mod 10 ^ Z.of_nat w.
Proof.
  intro H. rewrite Nat2Z.inj_succ, Z.pow_succ_r in H by lia.
  assert (P : 0 < 10 ^ Z.of_nat w) by (apply Z.pow_pos_nonneg; lia).
  repeat split.
  - apply Z.div_pos; lia.
  - apply Z.div_lt_upper_bound; lia.
  - apply Z.mod_pos_bound; lia.
  - apply Z.mod_pos_bound; lia.
  - apply Z.div_mod. lia.
Qed.

Lemma take_fmt w : forall acc n rest,
  0 <= n < 10 ^ Z.of_nat w ->
  take_num w acc (fmt_num w n ++ rest) = Some (acc * 10 ^ Z.of_nat w + n, rest).
Proof.
  induction w as [|w IH]; intros acc n rest H.
  - cbn in *. f_equal. f_equal. lia.
  - destruct (split_digit w n H) as (Hq & Hr & E).
    cbn [fmt_num take_num app]. rewrite (digit_val_digit _ Hq), (IH _ _ rest Hr).
    f_equal. f_equal. rewrite Nat2Z.inj_succ, Z.pow_succ_r by lia. lia.
Qed.

Lemma fmt_num_digits w : forall n c, 0 <= n < 10 ^ Z.of_nat w -> In c (fmt_num w n) -> is_digit c = true.
Proof.
  induction w as [|w IH]; intros n c H; cbn [fmt_num]; [intros []|].
  destruct (split_digit w n H) as (Hq & Hr & _). intros [<-|Hc]; [|eauto].
  destruct (digit_cases _ Hq) as [->|[->|[->|[->|[->|[->|[->|[->|[->| ->]]]]]]]]]; reflexivity.
Qed.

(* ---- parsing inverts formatting ------------------------------------------------------------------------- *)
Lemma run_fmt ts v : forall a,
  in_range ts v -> NoDup (flds ts) -> (forall f, In f (flds ts) -> a f = None) ->
  exists a', run ts (fmt_toks ts v) a = Some a' /\
             forall f, a' f = if existsb (fld_eqb f) (flds ts) then Some (v f) else a f.
Proof.
  induction ts as [|t r IH]; intros a Hr Hd Ha.
  - exists a. split; auto.
  - destruct t as [f|c|].
    + cbn [flds] in *. inversion Hd as [|? ? Hnin Hd']; subst.
      assert (Hrf : 0 <= v f < 10 ^ Z.of_nat (width f)) by (apply Hr; now left).
      destruct (IH (p_put f (v f) a)) as (a' & Hrun & Ha').
      * intros g Hg. apply Hr. now right.
      * exact Hd'.
      * intros g Hg. unfold p_put. replace (fld_eqb g f) with false.
        -- apply Ha. now right.
        -- symmetry. apply fld_eqb_neq. intros ->. contradiction.
      * exists a'. split.
        -- cbn [fmt_toks run]. rewrite (Ha f) by now left.
           rewrite (take_fmt (width f) 0 (v f) _ Hrf). cbn [Z.mul Z.add]. exact Hrun.
        -- intro g. rewrite Ha'. cbn [existsb]. unfold p_put.
           destruct (fld_eqb g f) eqn:E.
           ++ apply fld_eqb_eq in E. subst.
              replace (existsb (fld_eqb f) (flds r)) with false; [reflexivity|].
              symmetry. destruct (existsb (fld_eqb f) (flds r)) eqn:E2; auto.
              apply existsb_fld in E2. contradiction.
           ++ reflexivity.
    + cbn [flds fmt_toks run] in *. rewrite ascii_eqb_refl. now apply IH.
    + cbn [flds fmt_toks run] in *. now apply IH.
Qed.

Lemma full_ext a b : (forall f, a f = b f) -> full a = full b.
Proof. intro H. unfold full. now rewrite !H. Qed.

Lemma finish_ext a b : (forall f, a f = b f) -> finish a = finish b.
Proof. intro H. unfold finish. now rewrite (full_ext a b H). Qed.

Lemma strp_toks_fmt ts v :
  in_range ts v -> NoDup (flds ts) -> strp_toks ts (fmt_toks ts v) = finish (restrict ts v).
Proof.
  intros Hr Hd. unfold strp_toks.
  destruct (run_fmt ts v p_empty Hr Hd) as (a' & -> & Ha'); [reflexivity|].
  apply finish_ext. intro f. rewrite Ha'. unfold restrict, p_empty. reflexivity.
Qed.

(* ---- renaming the fields: the same string, another reading ------------------------------------------- *)
Lemma flds_rename sg ts : flds (rename sg ts) = map sg (flds ts).
Proof. unfold rename. induction ts as [|[f|c|] r IH]; cbn; congruence. Qed.

Lemma fmt_rename sg ts w :
  (forall f, width (sg f) = width f) ->
  fmt_toks (rename sg ts) w = fmt_toks ts (fun f => w (sg f)).
Proof.
  intro Hw. induction ts as [|[f|c|] r IH]; cbn; auto.
  - unfold rename in IH. now rewrite IH, Hw.
  - unfold rename in IH. now rewrite IH.
  - unfold rename in IH. now rewrite IH.
Qed.

(* a pattern that permutes the fields of the layout `ts` parses the string written from `ts` with the
   value (w o sg) as the value w *)
Lemma perm_reads sg ts w :
  (forall f, width (sg f) = width f) -> NoDup (map sg (flds ts)) -> in_range (rename sg ts) w ->
  strp_toks (rename sg ts) (fmt_toks ts (fun f => w (sg f))) = finish (restrict (rename sg ts) w).
Proof.
  intros Hw Hd Hr. rewrite <- (fmt_rename sg ts w Hw). apply strp_toks_fmt; auto.
  now rewrite flds_rename.
Qed.

(* ---- pattern text <-> tokens ---------------------------------------------------------------------------- *)
Definition plain_tok (t : tok) : bool :=
  match t with TF _ => true | TL c => negb (ascii_eqb c c_pct) | TAny => false end.

Lemma fld_of_letter f : fld_of (letter f) = Some f.
Proof. destruct f; reflexivity. Qed.

Lemma tokens_text ts : forallb plain_tok ts = true -> tokens (text ts) = Some ts.
Proof.
  induction ts as [|[f|c|] r IH]; cbn [forallb plain_tok text tokens]; auto.
  - intro H. replace (ascii_eqb c_pct c_pct) with true by reflexivity.
    now rewrite fld_of_letter, IH.
  - intro H. apply andb_true_iff in H as [Hc H]. apply negb_true_iff in Hc. now rewrite Hc, IH.
  - discriminate.
Qed.

Lemma plain_rename sg ts : forallb plain_tok (rename sg ts) = forallb plain_tok ts.
Proof. unfold rename. induction ts as [|[f|c|] r IH]; cbn; auto. now rewrite IH. Qed.

(* ---- ISO: the separator of a datetime written as 'T' ---------------------------------------------------- *)
Lemma fmt_lit k v : fmt_toks (lit_toks k) v = isofmt k v.
Proof. destruct k; reflexivity. Qed.
Lemma flds_lit k : flds (lit_toks k) = flds (iso_toks k).
Proof. destruct k; reflexivity. Qed.
Lemma plain_lit k : forallb plain_tok (lit_toks k) = true.
Proof. destruct k; reflexivity. Qed.
Lemma nodup_iso k : NoDup (flds (iso_toks k)).
Proof.
  destruct k; cbn; repeat constructor; cbn; intuition discriminate.
Qed.

Lemma restrict_lit k v f : restrict (lit_toks k) v f = restrict (iso_toks k) v f.
Proof. unfold restrict. now rewrite flds_lit. Qed.

Lemma first_form_head ts r s a : run ts s p_empty = Some a -> first_form (ts :: r) s = finish a.
Proof. cbn. now intros ->. Qed.

Lemma iso_fix_fmt k v :
  in_range (iso_toks k) v ->
  iso_fix k (isofmt k v) =
  match finish (restrict (iso_toks k) v) with Some d => Some (kval k d) | None => None end.
Proof.
  intro Hr. unfold iso_fix, isofmt.
  destruct (run_fmt (iso_toks k) v p_empty Hr (nodup_iso k)) as (a' & Hrun & Ha'); [reflexivity|].
  assert (E : first_form (iso_forms k) (fmt_toks (iso_toks k) v) = finish a').
  { destruct k; cbn [iso_forms iso_time_forms map app]; apply first_form_head; exact Hrun. }
  rewrite E. rewrite (finish_ext a' (restrict (iso_toks k) v)); [reflexivity|].
  intro f. rewrite Ha'. reflexivity.
Qed.

(* ---- no 'Z', no '-' / '+' where it matters ---------------------------------------------------------------- *)
Definition c_Z : ascii := "Z"%char.

Lemma replace_first_absent new s :
  existsb (ascii_eqb c_Z) s = false -> replace_first (S "Z") new s = s.
Proof.
  induction s as [|c r IH]; cbn [existsb]; [reflexivity|].
  intro H. apply orb_false_iff in H as [Hc Hr].
  change (S "Z") with [c_Z]. cbn [replace_first starts_with].
  replace (ascii_eqb c_Z c) with false by (symmetry; exact Hc).
  cbn. f_equal. apply IH. exact Hr.
Qed.

Lemma existsb_app {A} (f : A -> bool) l1 l2 : existsb f (l1 ++ l2) = existsb f l1 || existsb f l2.
Proof. induction l1; cbn; auto. now rewrite IHl1, orb_assoc. Qed.

Lemma no_char_fmt_num (bad : ascii) w n :
  is_digit bad = false -> 0 <= n < 10 ^ Z.of_nat w -> existsb (ascii_eqb bad) (fmt_num w n) = false.
Proof.
  intros Hb H. destruct (existsb (ascii_eqb bad) (fmt_num w n)) eqn:E; auto.
  apply existsb_exists in E as (c & Hc & Ec). apply ascii_eqb_eq in Ec. subst.
  rewrite (fmt_num_digits w n c H Hc) in Hb. discriminate.
Qed.

Definition lits_avoid (bad : ascii) (ts : list tok) : bool :=
  forallb (fun t => match t with TL c => negb (ascii_eqb bad c) | TF _ => true | TAny => negb (ascii_eqb bad "T"%char) end) ts.

Lemma no_char_fmt (bad : ascii) ts v :
  is_digit bad = false -> lits_avoid bad ts = true -> in_range ts v ->
  existsb (ascii_eqb bad) (fmt_toks ts v) = false.
Proof.
  intros Hb. induction ts as [|[f|c|] r IH]; cbn [lits_avoid forallb fmt_toks existsb]; auto; intros Hl Hr.
  - rewrite existsb_app, (no_char_fmt_num bad _ _ Hb (Hr f (or_introl eq_refl))). cbn.
    apply IH; auto. intros g Hg. apply Hr. now right.
  - apply andb_true_iff in Hl as [Hc Hl]. apply negb_true_iff in Hc. rewrite Hc. cbn. now apply IH.
  - apply andb_true_iff in Hl as [Hc Hl]. apply negb_true_iff in Hc. rewrite Hc. cbn. now apply IH.
Qed.

Lemma iso_arg_isofmt k v : in_range (iso_toks k) v -> iso_arg k (isofmt k v) = isofmt k v.
Proof.
  intro Hr. destruct k; [reflexivity| |]; unfold iso_arg; apply replace_first_absent;
    apply no_char_fmt; auto.
Qed.

Lemma time_perm_no_dash sg : has_dash_plus (text (rename sg iso_time_toks)) = false.
Proof. cbn. destruct (sg FH), (sg FM), (sg FS); reflexivity. Qed.

Lemma dash_time_perm k sg : dash_time k (text (rename sg (lit_toks k))) = false.
Proof.
  destruct k; try reflexivity. unfold dash_time. cbn [is_time andb lit_toks iso_toks].
  apply time_perm_no_dash.
Qed.

(* ---- the ambiguous family --------------------------------------------------------------------------------
   k: the target kind; sg: a width-preserving injective renaming of the fields of the ISO layout of k
   (a permutation of month/day, of hour/minute/second ...); w: the numbers the PATTERN reads.
   The string is the ISO rendering of the value v = w o sg. *)
Section Family.
Variable k : kind.
Variable sg : fld -> fld.
Variable w : fvals.
Hypothesis Hwidth : forall f, width (sg f) = width f.
Hypothesis Hinj : NoDup (map sg (flds (iso_toks k))).
Hypothesis Hrange : in_range (rename sg (lit_toks k)) w.

Notation fam_v := (fam_v sg w).
Notation fam_p := (fam_p k sg).
Notation fam_s := (fam_s k sg w).
Notation fam_iso_reading := (fam_iso_reading k sg w).
Notation fam_pat_reading := (fam_pat_reading k sg w).

Lemma fam_range_v : in_range (iso_toks k) fam_v.
Proof.
  intros f Hf. unfold PatStd.fam_v. rewrite <- Hwidth. apply Hrange.
  rewrite flds_rename, flds_lit. now apply in_map.
Qed.

Lemma fam_strp : strp_fix fam_p fam_s = finish (restrict (rename sg (lit_toks k)) w).
Proof.
  unfold strp_fix, PatStd.fam_p, PatStd.fam_s. rewrite tokens_text by (rewrite plain_rename; apply plain_lit).
  rewrite <- fmt_lit. unfold PatStd.fam_v.
  apply (perm_reads sg (lit_toks k) w Hwidth); [|exact Hrange]. now rewrite flds_lit.
Qed.

Lemma fam_iso :
  iso_fix k fam_s = match finish (restrict (iso_toks k) fam_v) with Some d => Some (kval k d) | None => None end.
Proof. apply iso_fix_fmt, fam_range_v. Qed.

Hypothesis Hvalid_iso : valid_stamp fam_iso_reading = true.

Lemma fam_iso_some : iso_fix k fam_s = Some (kval k fam_iso_reading).
Proof. rewrite fam_iso. unfold finish. change (full (restrict (iso_toks k) fam_v)) with fam_iso_reading. now rewrite Hvalid_iso. Qed.

Lemma fam_load0 cls : load0 iso_fix strp_fix k cls fam_p fam_s = Loaded (mkv k cls (kval k fam_iso_reading)).
Proof.
  apply iso_wins0.
  - unfold PatStd.fam_s. rewrite (iso_arg_isofmt k fam_v fam_range_v). apply fam_iso_some.
  - apply dash_time_perm.
Qed.

Lemma fam_load1 cls tzo ps1 ps2 :
  dash_time1 k (ps1 ++ fam_p :: ps2) = false ->
  load1 iso_fix strp_fix k cls tzo (ps1 ++ fam_p :: ps2) fam_s = Loaded (mkv k cls (set_tz_opt tzo (kval k fam_iso_reading))).
Proof. intro Hd. apply iso_wins1; auto. apply fam_iso_some. Qed.

Hypothesis Hvalid_pat : valid_stamp fam_pat_reading = true.

Lemma fam_strp_some : strp_fix fam_p fam_s = Some fam_pat_reading.
Proof. rewrite fam_strp. unfold finish. change (full (restrict (rename sg (lit_toks k)) w)) with fam_pat_reading. now rewrite Hvalid_pat. Qed.

Lemma fam_matches : pmatches strp_fix fam_p fam_s = true.
Proof. unfold pmatches. now rewrite fam_strp_some. Qed.
End Family.

(* ---- the family, closed ------------------------------------------------------------------------------------ *)
Lemma ambiguous_family k sg w :
  (forall f, width (sg f) = width f) -> NoDup (map sg (flds (iso_toks k))) -> in_range (rename sg (lit_toks k)) w ->
  valid_stamp (fam_iso_reading k sg w) = true -> valid_stamp (fam_pat_reading k sg w) = true ->
  strp_fix (fam_p k sg) (fam_s k sg w) = Some (fam_pat_reading k sg w) /\
  iso_fix k (fam_s k sg w) = Some (kval k (fam_iso_reading k sg w)) /\
  (conv0 k (fam_pat_reading k sg w) <> kval k (fam_iso_reading k sg w) ->
   ambig0 iso_fix strp_fix k (fam_p k sg) (fam_s k sg w) = true) /\
  (forall cls, load0 iso_fix strp_fix k cls (fam_p k sg) (fam_s k sg w) = Loaded (mkv k cls (kval k (fam_iso_reading k sg w)))) /\
  (forall cls tzo ps1 ps2, dash_time1 k (ps1 ++ fam_p k sg :: ps2) = false ->
     load1 iso_fix strp_fix k cls tzo (ps1 ++ fam_p k sg :: ps2) (fam_s k sg w)
     = Loaded (mkv k cls (set_tz_opt tzo (kval k (fam_iso_reading k sg w))))).
Proof.
  intros Hw Hi Hr Hv1 Hv2. repeat split.
  - now apply fam_strp_some.
  - now apply fam_iso_some.
  - intro Hne. apply ambig0_spec. exists (fam_pat_reading k sg w), (kval k (fam_iso_reading k sg w)).
    repeat split; auto.
    + unfold fam_s. rewrite (iso_arg_isofmt k _ (fam_range_v k sg w Hw Hr)). now apply fam_iso_some.
    + now apply fam_strp_some.
  - intro cls. now apply fam_load0.
  - intros cls tzo ps1 ps2 Hd. now apply fam_load1.
Qed.

(* ---- in plain words: day/month swapped, hours/seconds swapped --------------------------------------------- *)
Lemma dim_le y m : dim y m <= 31.
Proof. unfold dim. destruct (m =? 2); [destruct (leap y); lia|]. destruct ((m =? 4) || (m =? 6) || (m =? 9) || (m =? 11)); lia. Qed.

Lemma valid_bounds d : valid_stamp d = true ->
  1 <= yr d <= 9999 /\ 1 <= mo d <= 12 /\ 1 <= dy d <= 31 /\ 0 <= hh d <= 23 /\ 0 <= mi d <= 59 /\ 0 <= ss d <= 59.
Proof.
  unfold valid_stamp. intro H.
  repeat (apply andb_true_iff in H; destruct H as [H ?]).
  repeat match goal with E : (_ <=? _) = true |- _ => apply Z.leb_le in E end.
  pose proof (dim_le (yr d) (mo d)). lia.
Qed.

Lemma sg_dm_width f : width (sg_dm f) = width f.
Proof. destruct f; reflexivity. Qed.
Lemma sg_hs_width f : width (sg_hs f) = width f.
Proof. destruct f; reflexivity. Qed.
Lemma sg_both_width f : width (sg_both f) = width f.
Proof. destruct f; reflexivity. Qed.

Lemma nodup_flds (l : list fld) : forallb (fun p => negb (fld_eqb (fst p) (snd p)))
                                    (flat_map (fun i => map (fun j => (nth i l FY, nth j l FY)) (seq 0 i)) (seq 0 (List.length l))) = true ->
                                  NoDup l.
Proof.
  intro H. apply (NoDup_nth l FY). intros i j Hi Hj E.
  destruct (Nat.eq_dec i j) as [|Hne]; auto. exfalso.
  rewrite forallb_forall in H.
  assert (G : forall a b, (b < a < List.length l)%nat -> nth a l FY <> nth b l FY).
  { intros a b Hab. specialize (H (nth a l FY, nth b l FY)). cbn in H.
    assert (In (nth a l FY, nth b l FY)
               (flat_map (fun i => map (fun j => (nth i l FY, nth j l FY)) (seq 0 i)) (seq 0 (List.length l)))).
    { apply in_flat_map. exists a. split; [apply in_seq; lia|]. apply in_map_iff. exists b. split; auto. apply in_seq. lia. }
    specialize (H H0). apply negb_true_iff, fld_eqb_neq in H. exact H. }
  destruct (Nat.lt_ge_cases i j).
  - apply (G j i); [lia|]. now symmetry.
  - apply (G i j); [lia|]. exact E.
Qed.

(* every date: '%Y-%d-%m' also parses the ISO string of y-m-d, as y-d-m, when that date exists *)
Lemma ambiguous_dates y m d :
  valid_stamp (dstamp y m d 0 0 0) = true -> valid_stamp (dstamp y d m 0 0 0) = true ->
  let s := isofmt KDate (fv y m d 0 0 0) in
  strp_fix (S "%Y-%d-%m") s = Some (dstamp y d m 0 0 0) /\
  iso_fix KDate s = Some (dstamp y m d 0 0 0) /\
  (m <> d -> ambig0 iso_fix strp_fix KDate (S "%Y-%d-%m") s = true) /\
  (forall cls, load0 iso_fix strp_fix KDate cls (S "%Y-%d-%m") s = Loaded (mkv KDate cls (dstamp y m d 0 0 0))) /\
  (forall cls ps1 ps2,
     load1 iso_fix strp_fix KDate cls None (ps1 ++ S "%Y-%d-%m" :: ps2) s = Loaded (mkv KDate cls (dstamp y m d 0 0 0))).
Proof.
  intros V1 V2 s.
  destruct (valid_bounds _ V1) as (By & Bm & Bd & _). cbn in By, Bm, Bd.
  pose (w := fv y d m 0 0 0).
  assert (Hr : in_range (rename sg_dm (lit_toks KDate)) w).
  { intros f Hf. cbn in Hf. destruct Hf as [<-|[<-|[<-|[]]]]; cbn; lia. }
  assert (Hn : NoDup (map sg_dm (flds (iso_toks KDate)))) by (apply nodup_flds; reflexivity).
  destruct (ambiguous_family KDate sg_dm w sg_dm_width Hn Hr V1 V2) as (A & B & C & D & E).
  change (fam_p KDate sg_dm) with (S "%Y-%d-%m") in *.
  change (fam_s KDate sg_dm w) with s in *.
  change (fam_pat_reading KDate sg_dm w) with (dstamp y d m 0 0 0) in *.
  change (kval KDate (fam_iso_reading KDate sg_dm w)) with (dstamp y m d 0 0 0) in *.
  repeat split; auto.
  - intro Hne. apply C. cbn. unfold date_of, dstamp. cbn. intro X. inversion X. congruence.
  - intros cls ps1 ps2. exact (E cls None ps1 ps2 eq_refl).
Qed.

(* every time: '%S:%M:%H' also parses the ISO string of h:mi:s, as s:mi:h, when s <= 23 *)
Lemma ambiguous_times h mi s :
  valid_stamp (dstamp 1900 1 1 h mi s) = true -> valid_stamp (dstamp 1900 1 1 s mi h) = true ->
  let x := isofmt KTime (fv 0 0 0 h mi s) in
  strp_fix (S "%S:%M:%H") x = Some (dstamp 1900 1 1 s mi h) /\
  iso_fix KTime x = Some (dstamp 0 0 0 h mi s) /\
  (h <> s -> ambig0 iso_fix strp_fix KTime (S "%S:%M:%H") x = true) /\
  (forall cls, load0 iso_fix strp_fix KTime cls (S "%S:%M:%H") x = Loaded (mkv KTime cls (dstamp 0 0 0 h mi s))) /\
  (forall cls tzo ps1 ps2, dash_time1 KTime (ps1 ++ S "%S:%M:%H" :: ps2) = false ->
     load1 iso_fix strp_fix KTime cls tzo (ps1 ++ S "%S:%M:%H" :: ps2) x
     = Loaded (mkv KTime cls (set_tz_opt tzo (dstamp 0 0 0 h mi s)))).
Proof.
  intros V1 V2 x.
  destruct (valid_bounds _ V1) as (_ & _ & _ & Bh & Bmi & Bs). cbn in Bh, Bmi, Bs.
  pose (w := fv 0 0 0 s mi h).
  assert (Hr : in_range (rename sg_hs (lit_toks KTime)) w).
  { intros f Hf. cbn in Hf. destruct Hf as [<-|[<-|[<-|[]]]]; cbn; lia. }
  assert (Hn : NoDup (map sg_hs (flds (iso_toks KTime)))) by (apply nodup_flds; reflexivity).
  destruct (ambiguous_family KTime sg_hs w sg_hs_width Hn Hr V1 V2) as (A & B & C & D & E).
  change (fam_p KTime sg_hs) with (S "%S:%M:%H") in *.
  change (fam_s KTime sg_hs w) with x in *.
  change (fam_pat_reading KTime sg_hs w) with (dstamp 1900 1 1 s mi h) in *.
  change (kval KTime (fam_iso_reading KTime sg_hs w)) with (dstamp 0 0 0 h mi s) in *.
  repeat split; auto.
  intro Hne. apply C. cbn. unfold time_of, dstamp. cbn. intro X. inversion X. congruence.
Qed.

(* ---- the slice satisfies the literal law (premise of the dump/load theorems on the exception) -------- *)
Lemma take_num_suffix w : forall acc s n s' c, take_num w acc s = Some (n, s') -> In c s' -> In c s.
Proof.
  induction w as [|w IH]; intros acc s n s' c; cbn.
  - intro H. inversion H. now subst.
  - destruct s as [|x r]; [discriminate|]. destruct (digit_val x); [|discriminate].
    intros H Hc. right. eapply IH; eauto.
Qed.

Lemma run_literal ts : forall s a a' c, run ts s a = Some a' -> In (TL c) ts -> In c s.
Proof.
  induction ts as [|t r IH]; intros s a a' c; [intros _ []|].
  destruct t as [f|x|]; cbn [run].
  - destruct (a f); [discriminate|]. destruct (take_num (width f) 0 s) as [[n s']|] eqn:E; [|discriminate].
    intros H [X|Hc]; [discriminate|]. eapply take_num_suffix; eauto.
  - destruct s as [|y s']; [discriminate|]. destruct (ascii_eqb y x) eqn:E; [|discriminate].
    apply ascii_eqb_eq in E. subst. intros H [X|Hc].
    + inversion X. now left.
    + right. eauto.
  - destruct s as [|y s']; [discriminate|]. intros H [X|Hc]; [discriminate|]. right. eauto.
Qed.

Lemma tokens_literal_aux n : forall p ts c, (List.length p <= n)%nat ->
  tokens p = Some ts -> In c p -> ascii_eqb c c_pct = false -> fld_of c = None -> In (TL c) ts.
Proof.
  induction n as [|n IH]; intros p ts c Hl.
  - destruct p; [intros _ []|cbn in Hl; lia].
  - destruct p as [|x r]; [intros _ []|]. cbn [tokens]. cbn in Hl.
    destruct (ascii_eqb x c_pct) eqn:Ex.
    + destruct r as [|d r']; [discriminate|].
      destruct (fld_of d) as [f|] eqn:Ed; [|discriminate].
      destruct (tokens r') as [ts'|] eqn:Et; [|discriminate].
      intro H. inversion H. subst. intros [->|[->|Hc]] Hp Hf.
      * congruence.
      * congruence.
      * right. apply (IH r' ts' c); auto. cbn in Hl. lia.
    + destruct (tokens r) as [ts'|] eqn:Et; [|discriminate].
      intro H. inversion H. subst. intros [->|Hc] Hp Hf.
      * now left.
      * right. apply (IH r ts' c); auto. lia.
Qed.

Lemma strp_fix_literal_law : literal_law strp_fix.
Proof.
  intros p s d H Hd. unfold strp_fix in H.
  destruct (tokens p) as [ts|] eqn:Et; [|discriminate].
  unfold strp_toks in H. destruct (run ts s p_empty) as [a|] eqn:Er; [|discriminate].
  unfold has_dash_plus in *. apply existsb_exists in Hd as (c & Hc & Hb).
  apply existsb_exists. exists c. split; [|exact Hb].
  assert (Hlit : In (TL c) ts).
  { apply (tokens_literal_aux (List.length p) p ts c); auto.
    - apply orb_true_iff in Hb as [E|E]; apply ascii_eqb_eq in E; subst; reflexivity.
    - apply orb_true_iff in Hb as [E|E]; apply ascii_eqb_eq in E; subst; reflexivity. }
  exact (run_literal ts s p_empty a c Er Hlit).
Qed.
