(* SkipLocalsProofs.v — the closure environment of a whole class (C11, part 4).
   `_locals` is a state threaded through the generator; every closure-bound condition of
   a class reads, in the generated function, the very object it was built with.
   Lemmas only; statements are in props/C11.v. *)
From DW Require Import PyStr CharFacts SkipModel SkipLocals SkipCondProofs SkipKeysProofs.
From Coq Require Import ZArith Lia.

(* ------------------------------------------------ the dict *)
Lemma lookup_dict_set_same : forall l n v, lookup_name (dict_set l n v) n = Some v.
Proof.
  induction l as [|[k x] r IH]; intros n v.
  - cbn [dict_set lookup_name]. rewrite name_eqb_refl. reflexivity.
  - cbn [dict_set]. destruct (name_eqb k n) eqn:E; cbn [lookup_name]; rewrite E; [reflexivity|apply IH].
Qed.

Lemma lookup_dict_set_other : forall l n v k, n <> k -> lookup_name (dict_set l n v) k = lookup_name l k.
Proof.
  induction l as [|[k0 x] r IH]; intros n v k Hn.
  - cbn [dict_set lookup_name]. rewrite (name_eqb_neq n k Hn). reflexivity.
  - cbn [dict_set]. destruct (name_eqb k0 n) eqn:E; cbn [lookup_name].
    + apply name_eqb_eq in E. subst k0. rewrite (name_eqb_neq n k Hn). reflexivity.
    + destruct (name_eqb k0 k); [reflexivity|apply IH; exact Hn].
Qed.

(* a fresh key is appended at the end *)
Lemma dict_set_fresh : forall l n v, lookup_name l n = None -> dict_set l n v = l ++ [(n, v)].
Proof.
  induction l as [|[k x] r IH]; intros n v H; [reflexivity|].
  cbn [lookup_name] in H. cbn [dict_set app]. destruct (name_eqb k n); [discriminate H|].
  rewrite (IH n v H). reflexivity.
Qed.

(* ------------------------------------------------ what a binder must guarantee *)
(* Called with a requested name that is still free, the binder returns a name that
   denotes the given OBJECT afterwards, keeps every existing entry, and binds no other
   free name. *)
Definition binder_sound (B : binder) : Prop :=
  forall l var v, lookup_name l var = None ->
    lookup_name (snd (B l var v)) (fst (B l var v)) = Some v /\
    (forall n x, lookup_name l n = Some x -> lookup_name (snd (B l var v)) n = Some x) /\
    (forall n, n <> var -> lookup_name l n = None -> lookup_name (snd (B l var v)) n = None).

Lemma bind_own_sound : binder_sound bind_own.
Proof.
  intros l var v Hfree. unfold bind_own. cbn [fst snd]. split; [|split].
  - apply lookup_dict_set_same.
  - intros n x Hn. rewrite lookup_dict_set_other; [exact Hn|].
    intro E. subst n. rewrite Hfree in Hn. discriminate Hn.
  - intros n Hn Hnone. rewrite lookup_dict_set_other; [exact Hnone|]. intro E. apply Hn. symmetry. exact E.
Qed.

(* ------------------------------------------------ the invariant *)
Definition uses_ok (st : gstate) : Prop :=
  Forall (fun kv => lookup_name (g_loc st) (fst kv) = Some (snd kv)) (g_uses st).

Lemma uses_ok_mono : forall st l',
  uses_ok st -> (forall n x, lookup_name (g_loc st) n = Some x -> lookup_name l' n = Some x) ->
  uses_ok (GS l' (g_uses st)).
Proof.
  intros st l' H Hm. unfold uses_ok in *. cbn [g_loc g_uses].
  apply Forall_forall. intros kv Hin. rewrite Forall_forall in H. apply Hm. apply H. exact Hin.
Qed.

Section Sound.
  Variable B : binder.
  Hypothesis HB : binder_sound B.

  Lemma gsc_st_inv : forall c var st,
    lookup_name (g_loc st) var = None -> uses_ok st ->
    uses_ok (snd (gsc_st B c var st)) /\
    (forall n, n <> var -> lookup_name (g_loc st) n = None ->
               lookup_name (g_loc (snd (gsc_st B c var st))) n = None).
  Proof.
    intros c var st Hfree Hu. unfold gsc_st.
    destruct c as [c|]; [|split; [exact Hu|intros; assumption]].
    destruct (t_or_f (c_op c)); [split; [exact Hu|intros; assumption]|].
    destruct (inlined (c_op c) (val (c_val c))); [split; [exact Hu|intros; assumption]|].
    destruct (HB (g_loc st) var (c_val c) Hfree) as [H1 [H2 H3]].
    cbn [snd g_loc]. split; [|exact H3].
    unfold uses_ok. cbn [g_loc g_uses]. apply Forall_app. split.
    - apply (uses_ok_mono st _ Hu H2).
    - constructor; [exact H1|constructor].
  Qed.

  Lemma dflt_step_inv : forall m gd i f st,
    no_idx_ge i (g_loc st) -> uses_ok st ->
    uses_ok (snd (dflt_step m gd i f st)) /\
    lookup_name (g_loc (snd (dflt_step m gd i f st))) (NSkipIf i) = None /\
    no_idx_ge (i + 1) (g_loc (snd (dflt_step m gd i f st))).
  Proof.
    intros m gd i f st Hfree Hu. unfold dflt_step.
    assert (Hweak : no_idx_ge (i + 1) (g_loc st)) by (intros j Hj; apply Hfree; lia).
    destruct (Hfree i (le_n i)) as [Hsi Hdi].
    destruct (f_default f) as [d|]; [|split; [exact Hu|split; [exact Hsi|exact Hweak]]].
    destruct (gsc_true gd); [split; [exact Hu|split; [exact Hsi|exact Hweak]]|].
    cbn [snd g_loc]. split; [|split].
    - apply (uses_ok_mono st _ Hu). intros n x Hn. rewrite lookup_dict_set_other; [exact Hn|].
      intro E. subst n. rewrite Hdi in Hn. discriminate Hn.
    - rewrite lookup_dict_set_other; [exact Hsi|discriminate].
    - intros j Hj. destruct (Hfree j ltac:(lia)) as [H1 H2]. split.
      + rewrite lookup_dict_set_other; [exact H1|discriminate].
      + rewrite lookup_dict_set_other; [exact H2|]. intro E. inversion E. lia.
  Qed.

  Lemma body_step_inv : forall m gs i f st,
    lookup_name (g_loc st) (NSkipIf i) = None -> no_idx_ge (i + 1) (g_loc st) -> uses_ok st ->
    uses_ok (snd (body_step B m gs i f st)) /\ no_idx_ge (i + 1) (g_loc (snd (body_step B m gs i f st))).
  Proof.
    intros m gs i f st Hsi Hfree Hu. unfold body_step.
    destruct (f_key f) as [key|]; [|split; assumption].
    destruct (f_cond f) as [c|]; [|split; assumption].
    cbn [snd]. destruct (gsc_st_inv (Some c) (NSkipIf i) st Hsi Hu) as [H1 H2]. split; [exact H1|].
    intros j Hj. destruct (Hfree j Hj) as [Ha Hb]. split.
    - apply H2; [|exact Ha]. intro E. inversion E. lia.
    - apply H2; [discriminate|exact Hb].
  Qed.

  Lemma gen_loop_inv : forall m gs gd fs i st,
    no_idx_ge i (g_loc st) -> uses_ok st -> uses_ok (snd (gen_loop B m gs gd i fs st)).
  Proof.
    intros m gs gd. induction fs as [|f r IH]; intros i st Hfree Hu; [exact Hu|].
    cbn [gen_loop snd].
    destruct (dflt_step_inv m gd i f st Hfree Hu) as [Hu1 [Hsi1 Hf1]].
    destruct (body_step_inv m gs i f _ Hsi1 Hf1 Hu1) as [Hu2 Hf2].
    apply IH; assumption.
  Qed.

  (* The own-value theorem: for EVERY class, whatever the number of fields, the mix of
     inlined and closure-bound conditions and the equalities among their values. *)
  Lemma own_value_sound : forall m fs, own_value B m fs.
  Proof.
    intros m fs. unfold own_value, gen_locals, gen_uses, gen_st. cbn [snd].
    set (st0 := GS [] []).
    assert (Hu0 : uses_ok st0) by constructor.
    destruct (gsc_st_inv (m_skip_if m) NSkipValue st0 eq_refl Hu0) as [Hu1 Hf1].
    set (st1 := snd (gsc_st B (m_skip_if m) NSkipValue st0)) in *.
    assert (Hsd : lookup_name (g_loc st1) NSkipDefaultsValue = None) by (apply Hf1; [discriminate|reflexivity]).
    destruct (gsc_st_inv (m_skip_defaults_if m) NSkipDefaultsValue st1 Hsd Hu1) as [Hu2 Hf2].
    set (st2 := snd (gsc_st B (m_skip_defaults_if m) NSkipDefaultsValue st1)) in *.
    apply (gen_loop_inv m _ _ fs 0 st2); [|exact Hu2].
    intros j _. split; apply Hf2; try discriminate; apply Hf1; try discriminate; reflexivity.
  Qed.
End Sound.

Lemma own_value_bind_own : forall m fs, own_value bind_own m fs.
Proof. apply own_value_sound. exact bind_own_sound. Qed.

(* ------------------------------------------------ the threaded generator is the generator of SkipModel *)
Lemma gsc_st_own_fst : forall c var st, fst (gsc_st bind_own c var st) = fst (get_skip_if_condition c var).
Proof.
  intros [c|] var st; [|reflexivity]. unfold gsc_st, get_skip_if_condition.
  destruct (t_or_f (c_op c)); [reflexivity|].
  destruct (inlined (c_op c) (val (c_val c))); reflexivity.
Qed.

Lemma gsc_st_own_loc : forall c var st,
  lookup_name (g_loc st) var = None ->
  g_loc (snd (gsc_st bind_own c var st)) = g_loc st ++ snd (get_skip_if_condition c var).
Proof.
  intros [c|] var st H; unfold gsc_st, get_skip_if_condition; [|cbn [snd]; rewrite app_nil_r; reflexivity].
  destruct (t_or_f (c_op c)); [cbn [snd]; rewrite app_nil_r; reflexivity|].
  destruct (inlined (c_op c) (val (c_val c))); [cbn [snd]; rewrite app_nil_r; reflexivity|].
  cbn [snd g_loc bind_own]. apply dict_set_fresh. exact H.
Qed.

Lemma no_idx_ge_app_head : forall m i f pre,
  no_idx_ge i pre -> no_idx_ge (i + 1) (pre ++ head_clo m i f).
Proof.
  intros m i f pre Hpre j Hj. rewrite !lookup_name_app.
  destruct (Hpre j ltac:(lia)) as [H1 H2]. rewrite H1, H2. apply head_clo_other. lia.
Qed.

Lemma gen_loop_own : forall m fs i st,
  no_idx_ge i (g_loc st) ->
  fst (gen_loop bind_own m (fst (meta_skip_gsc m)) (fst (meta_sdi_gsc m)) i fs st) = (gen_dflt m i fs, gen_body m i fs) /\
  g_loc (snd (gen_loop bind_own m (fst (meta_skip_gsc m)) (fst (meta_sdi_gsc m)) i fs st)) = g_loc st ++ gen_clo m i fs.
Proof.
  intros m. induction fs as [|f r IH]; intros i st Hfree.
  - cbn [gen_loop gen_dflt gen_body gen_clo fst snd]. rewrite app_nil_r. split; reflexivity.
  - cbn [gen_loop fst snd].
    set (gs := fst (meta_skip_gsc m)) in *. set (gd := fst (meta_sdi_gsc m)) in *.
    destruct (Hfree i (le_n i)) as [Hsi Hdi].
    (* the state after the two steps of field i *)
    assert (Hst : g_loc (snd (body_step bind_own m gs i f (snd (dflt_step m gd i f st)))) =
                  g_loc st ++ head_clo m i f).
    { unfold head_clo, body_step, dflt_step. fold gd.
      destruct (f_default f) as [d|].
      - destruct (gsc_true gd).
        + cbn [snd app]. destruct (f_key f) as [key|]; [|cbn [snd]; rewrite app_nil_r; reflexivity].
          destruct (f_cond f) as [c|]; [|cbn [snd]; rewrite app_nil_r; reflexivity].
          cbn [snd]. rewrite (gsc_st_own_loc (Some c) (NSkipIf i) st Hsi). reflexivity.
        + cbn [snd].
          assert (Hd : dict_set (g_loc st) (NDefault i) d = g_loc st ++ [(NDefault i, d)])
            by (apply dict_set_fresh; exact Hdi).
          destruct (f_key f) as [key|]; [|cbn [snd g_loc]; rewrite Hd; reflexivity].
          destruct (f_cond f) as [c|]; [|cbn [snd g_loc]; rewrite Hd; reflexivity].
          cbn [snd]. rewrite gsc_st_own_loc.
          * cbn [g_loc]. rewrite Hd, <- app_assoc. reflexivity.
          * cbn [g_loc]. rewrite lookup_dict_set_other; [exact Hsi|discriminate].
      - cbn [snd app]. destruct (f_key f) as [key|]; [|cbn [snd]; rewrite app_nil_r; reflexivity].
        destruct (f_cond f) as [c|]; [|cbn [snd]; rewrite app_nil_r; reflexivity].
        cbn [snd]. rewrite (gsc_st_own_loc (Some c) (NSkipIf i) st Hsi). reflexivity. }
    set (st2 := snd (body_step bind_own m gs i f (snd (dflt_step m gd i f st)))) in *.
    assert (Hfree2 : no_idx_ge (i + 1) (g_loc st2)) by (rewrite Hst; apply no_idx_ge_app_head; exact Hfree).
    destruct (IH (i + 1) st2 Hfree2) as [IH1 IH2]. fold gs gd in IH1, IH2.
    split.
    + rewrite IH1. cbn [fst snd gen_dflt gen_body].
      unfold dflt_step, body_step. fold gd gs.
      f_equal.
      * destruct (f_default f) as [d|]; [|reflexivity]. destruct (gsc_true gd); reflexivity.
      * destruct (f_key f) as [key|]; [|reflexivity].
        destruct (f_cond f) as [c|]; [|reflexivity].
        cbn [fst app]. rewrite gsc_st_own_fst. reflexivity.
    + rewrite IH2, Hst. cbn [gen_clo]. fold gd.
      unfold head_clo. fold gd. rewrite <- !app_assoc. reflexivity.
Qed.

Lemma meta_gsc_own : forall m,
  let s1 := gsc_st bind_own (m_skip_if m) NSkipValue (GS [] []) in
  let s2 := gsc_st bind_own (m_skip_defaults_if m) NSkipDefaultsValue (snd s1) in
  fst s1 = fst (meta_skip_gsc m) /\ fst s2 = fst (meta_sdi_gsc m) /\
  g_loc (snd s2) = snd (meta_skip_gsc m) ++ snd (meta_sdi_gsc m).
Proof.
  intros m s1 s2. subst s1 s2. unfold meta_skip_gsc, meta_sdi_gsc.
  rewrite !gsc_st_own_fst. split; [reflexivity|]. split; [reflexivity|].
  assert (H1 : g_loc (snd (gsc_st bind_own (m_skip_if m) NSkipValue (GS [] []))) =
               snd (get_skip_if_condition (m_skip_if m) NSkipValue)).
  { rewrite gsc_st_own_loc by reflexivity. reflexivity. }
  rewrite gsc_st_own_loc; [rewrite H1; reflexivity|].
  rewrite H1. unfold get_skip_if_condition.
  destruct (m_skip_if m) as [c|]; [|reflexivity].
  destruct (t_or_f (c_op c)); [reflexivity|]. destruct (inlined (c_op c) (val (c_val c))); reflexivity.
Qed.

Lemma gen_st_own : forall m fs,
  fst (gen_st bind_own m fs) = gen_prog m fs /\ gen_locals bind_own m fs = gen_closure m fs.
Proof.
  intros m fs. unfold gen_locals, gen_st, gen_prog, gen_closure. cbn [fst snd].
  destruct (meta_gsc_own m) as [H1 [H2 H3]]. cbn zeta in H1, H2, H3.
  rewrite H1, H2.
  set (st2 := snd (gsc_st bind_own (m_skip_defaults_if m) NSkipDefaultsValue
                     (snd (gsc_st bind_own (m_skip_if m) NSkipValue (GS [] []))))) in *.
  assert (Hfree : no_idx_ge 0 (g_loc st2)) by (rewrite H3; apply meta_clo_no_idx).
  destruct (gen_loop_own m fs 0 st2 Hfree) as [L1 L2].
  rewrite L1, L2, H3. cbn [fst snd]. split; [|rewrite <- app_assoc; reflexivity].
  destruct fs; reflexivity.
Qed.

Lemma cls_asdict_st_own : forall m fs E s, cls_asdict_st bind_own m fs E s = cls_asdict m fs E s.
Proof.
  intros m fs E s. unfold cls_asdict_st, cls_asdict.
  destruct (gen_st_own m fs) as [H1 H2]. unfold gen_locals in H2. rewrite H1, H2. reflexivity.
Qed.

(* every class, every instance, every E, every s: the function generated with the
   threaded `_locals` selects with Condition.evaluate *)
Lemma cls_asdict_st_evaluate : forall m fs E s,
  NoDup (map f_name fs) -> cls_asdict_st bind_own m fs E s = ref_select evaluate m fs E s.
Proof. intros m fs E s H. rewrite cls_asdict_st_own. apply cls_asdict_evaluate. exact H. Qed.

(* ------------------------------------------------ identity is decided *)
Lemma py_is_identified : forall a b,
  identified a = true -> identified b = true -> py_is a b = Ok (same_object a b).
Proof.
  intros a b Ha Hb. unfold py_is, same_object, identified in *.
  destruct (is_singleton (val a) || is_singleton (val b)) eqn:Hs; [reflexivity|].
  apply orb_false_iff in Hs. destruct Hs as [Hsa Hsb]. rewrite Hsa in Ha. rewrite Hsb in Hb. cbn [orb] in Ha, Hb.
  destruct (oid a); [|discriminate Ha]. destruct (oid b); [|discriminate Hb]. reflexivity.
Qed.

Lemma evaluate_id_agrees : forall c v,
  ocond_identified (Some c) = true -> identified v = true -> evaluate c v = evaluate_id c v.
Proof.
  intros [op cv] v Hc Hv. unfold ocond_identified in Hc. cbn [c_op c_val] in Hc.
  unfold evaluate_id, evaluate. cbn [c_op c_val].
  destruct op; try reflexivity; cbn [t_or_f orb] in Hc; cbn [apply_cop];
    rewrite (py_is_identified v cv Hv Hc); reflexivity.
Qed.

Lemma evaluate_id_decided : forall c v, evaluate_id c v <> Err Unspecified.
Proof.
  intros [op cv] v. unfold evaluate_id, evaluate. cbn [c_op c_val].
  destruct op; cbn [apply_cop]; try discriminate;
    match goal with |- of_opt ?x <> _ => destruct x; cbn [of_opt]; discriminate end.
Qed.

(* the reference consults the conditions of the class on the field values of the instance only *)
Definition cls_conds_agree_on (c1 c2 : cond -> lval -> res bool) (m : cmeta) (fs : list fdesc) : Prop :=
  (forall c f, In f fs -> m_skip_if m = Some c -> c1 c (f_value f) = c2 c (f_value f)) /\
  (forall c f, In f fs -> m_skip_defaults_if m = Some c -> c1 c (f_value f) = c2 c (f_value f)) /\
  (forall c f, In f fs -> f_cond f = Some c -> c1 c (f_value f) = c2 c (f_value f)).

Lemma ref_pass1_ext_on : forall c1 c2 m E se fs,
  (forall c f, In f fs -> m_skip_defaults_if m = Some c -> c1 c (f_value f) = c2 c (f_value f)) ->
  ref_pass1 c1 m E se fs = ref_pass1 c2 m E se fs.
Proof.
  intros c1 c2 m E se. induction fs as [|f r IH]; intro H; [reflexivity|].
  cbn [ref_pass1]. rewrite IH by (intros c g Hg; apply H; right; exact Hg).
  assert (Ho : omit_default c1 m se f = omit_default c2 m se f).
  { unfold omit_default. destruct se; [|reflexivity]. destruct (f_default f); [|reflexivity].
    destruct (m_skip_defaults_if m) as [c|] eqn:Hc; [|reflexivity]. apply H; [left; reflexivity|reflexivity]. }
  rewrite Ho. reflexivity.
Qed.

Lemma ref_pass2_ext_on : forall c1 c2 m fs bs,
  (forall c f, In f fs -> m_skip_if m = Some c -> c1 c (f_value f) = c2 c (f_value f)) ->
  (forall c f, In f fs -> f_cond f = Some c -> c1 c (f_value f) = c2 c (f_value f)) ->
  ref_pass2 c1 m fs bs = ref_pass2 c2 m fs bs.
Proof.
  intros c1 c2 m. induction fs as [|f r IH]; intros bs Hm Hf; [reflexivity|].
  destruct bs as [|b bs']; [reflexivity|]. cbn [ref_pass2].
  rewrite (IH bs');
    [|intros c g Hg Hc; apply Hm; [right; exact Hg|exact Hc]
     |intros c g Hg Hc; apply Hf; [right; exact Hg|exact Hc]].
  assert (Ho : omit_cond c1 m f = omit_cond c2 m f).
  { unfold omit_cond, field_cond. destruct (f_cond f) as [c|] eqn:Hc.
    - apply Hf; [left; reflexivity|exact Hc].
    - destruct (m_skip_if m) as [c|] eqn:Hc'; [|reflexivity]. apply Hm; [left; reflexivity|reflexivity]. }
  rewrite Ho. reflexivity.
Qed.

Lemma ref_select_ext_on : forall c1 c2 m fs E s,
  cls_conds_agree_on c1 c2 m fs -> ref_select c1 m fs E s = ref_select c2 m fs E s.
Proof.
  intros c1 c2 m fs E s [H1 [H2 H3]]. unfold ref_select.
  rewrite (ref_pass1_ext_on c1 c2 m E _ fs H2).
  destruct (ref_pass1 c2 m E (eff_skip_defaults m s) fs); [|reflexivity].
  apply ref_pass2_ext_on; assumption.
Qed.

Lemma identified_agree : forall m fs,
  cls_identified m fs = true -> cls_conds_agree_on evaluate evaluate_id m fs.
Proof.
  intros m fs H. unfold cls_identified in H.
  apply andb_true_iff in H. destruct H as [H Hfs]. apply andb_true_iff in H. destruct H as [Hsi Hsd].
  rewrite forallb_forall in Hfs.
  split; [|split]; intros c f Hin Hc; specialize (Hfs f Hin); apply andb_true_iff in Hfs; destruct Hfs as [Hfc Hfv];
    apply evaluate_id_agrees; try exact Hfv.
  - rewrite Hc in Hsi. exact Hsi.
  - rewrite Hc in Hsd. exact Hsd.
  - rewrite Hc in Hfc. exact Hfc.
Qed.

Lemma cls_asdict_st_identity : forall m fs E s,
  NoDup (map f_name fs) -> cls_identified m fs = true ->
  cls_asdict_st bind_own m fs E s = ref_select evaluate_id m fs E s.
Proof.
  intros m fs E s Hnd Hid. rewrite (cls_asdict_st_evaluate m fs E s Hnd).
  apply ref_select_ext_on. apply identified_agree. exact Hid.
Qed.

(* an error of the reference selection is an error of some consulted condition *)
Lemma ref_pass1_err : forall csem e m E se fs,
  (forall c v, csem c v <> Err e) -> ref_pass1 csem m E se fs <> Err e.
Proof.
  intros csem e m E se fs H. induction fs as [|f r IH]; [discriminate|].
  cbn [ref_pass1].
  assert (Ho : (if excluded E f then Ok true else omit_default csem m se f) <> Err e).
  { destruct (excluded E f); [discriminate|]. unfold omit_default.
    destruct se; [|discriminate]. destruct (f_default f); [|discriminate].
    destruct (m_skip_defaults_if m); [apply H|discriminate]. }
  destruct (if excluded E f then Ok true else omit_default csem m se f) as [b|e0].
  - destruct (ref_pass1 csem m E se r) as [bs|e1]; [discriminate|]. intro X. apply IH. exact X.
  - intro X. apply Ho. inversion X. reflexivity.
Qed.

Lemma ref_pass2_err : forall csem e m fs bs,
  (forall c v, csem c v <> Err e) -> ref_pass2 csem m fs bs <> Err e.
Proof.
  intros csem e m fs. induction fs as [|f r IH]; intros bs H; [discriminate|].
  destruct bs as [|b bs']; [discriminate|]. cbn [ref_pass2].
  destruct (f_key f) as [key|]; [|apply IH; exact H].
  assert (Ho : (if b then Ok true else omit_cond csem m f) <> Err e).
  { destruct b; [discriminate|]. unfold omit_cond. destruct (field_cond m f); [apply H|discriminate]. }
  destruct (if b then Ok true else omit_cond csem m f) as [o|e0].
  - specialize (IH bs' H). destruct (ref_pass2 csem m r bs') as [ks|e1]; [discriminate|].
    intro X. apply IH. exact X.
  - intro X. apply Ho. inversion X. reflexivity.
Qed.

Lemma ref_select_err : forall csem e m fs E s,
  (forall c v, csem c v <> Err e) -> ref_select csem m fs E s <> Err e.
Proof.
  intros csem e m fs E s H. unfold ref_select.
  pose proof (ref_pass1_err csem e m E (eff_skip_defaults m s) fs H) as H1.
  destruct (ref_pass1 csem m E (eff_skip_defaults m s) fs) as [bs|e1].
  - apply ref_pass2_err. exact H.
  - intro X. apply H1. inversion X. reflexivity.
Qed.

Lemma cls_asdict_st_decided : forall m fs E s,
  NoDup (map f_name fs) -> cls_identified m fs = true ->
  cls_asdict_st bind_own m fs E s <> Err Unspecified.
Proof.
  intros m fs E s Hnd Hid. rewrite (cls_asdict_st_identity m fs E s Hnd Hid).
  apply ref_select_err. apply evaluate_id_decided.
Qed.
