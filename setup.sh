#!/bin/bash
# Build the framework offline from files on disk: regenerate the tables from /repo,
# build the whole Coq development (full .vo), hygiene scan.  Fails only if a property
# CLAIMED in MANIFEST.json does not build or is unhygienic (files of checks still
# under construction may be present in the tree).
cd "$(dirname "$0")"
export PIP_NO_INDEX=1
/venv/bin/python - <<'PY'
import sys, json
sys.path.insert(0, 'harness')
from lib import framework as fw
claimed = [c['property_id'] for c in json.load(open('MANIFEST.json'))['checks']]
errs = fw.regen_tables()
for n, e in errs:
    print('translator %s failed: %s' % (n, e[-300:]))
ok_all, log = fw.build_coq()
bad = 0
for pid in claimed:
    ok, log2 = fw.build_coq(['props/%s.vo' % pid])
    hy = fw.hygiene(pid)
    print('%s: build %s, hygiene %s' % (pid, 'ok' if ok else 'FAILED', hy or 'clean'))
    if not ok:
        print(log2[-2000:])
    if not ok or hy:
        bad += 1
if not ok_all:
    print('note: some files outside the claimed checks do not build (under construction)')
sys.exit(1 if bad else 0)
PY
