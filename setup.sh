#!/bin/bash
# Build the framework offline from files on disk: regenerate the tables from /repo,
# build the whole Coq development (full .vo), run the harness self-test.
set -e
cd "$(dirname "$0")"
export PIP_NO_INDEX=1
/venv/bin/python - <<'PY'
import sys
sys.path.insert(0, 'harness')
from lib import framework as fw
errs = fw.regen_tables()
for n, e in errs:
    print('translator %s failed: %s' % (n, e)); 
ok, log = fw.build_coq()
print(log[-3000:] if not ok else 'coq build ok')
bad = fw.hygiene()
print('hygiene:', bad or 'clean')
sys.exit(0 if ok and not bad and not errs else 1)
PY
